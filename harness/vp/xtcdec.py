"""Independent reader of GROMACS XTC files (header + xdr3dfcoord decompression), standard library + numpy only.
Written from the published description of the format (magic 1995; compressed integer coordinates at `precision` per nm with
run-length coded small differences), NOT from mdtraj's sources being checked: used by C01 as the independent reading of the bytes.
Validated against GROMACS-produced reference files in tests/data (see tools/xtcdec_selfcheck.py)."""
import struct

import numpy as np

MAGICINTS = [0, 0, 0, 0, 0, 0, 0, 0, 0, 8, 10, 12, 16, 20, 25, 32, 40, 50, 64, 80, 101, 128, 161, 203, 256, 322, 406, 512, 645, 812, 1024, 1290,
             1625, 2048, 2580, 3250, 4096, 5060, 6501, 8192, 10321, 13003, 16384, 20642, 26007, 32768, 41285, 52015, 65536, 82570, 104031,
             131072, 165140, 208063, 262144, 330280, 416127, 524287, 660561, 832255, 1048576, 1321122, 1664510, 2097152, 2642245, 3329021,
             4194304, 5284491, 6658042, 8388607, 10568983, 13316085, 16777216]
FIRSTIDX = 9


class _Bits:
    """MSB-first bit stream"""
    def __init__(self, data):
        self.v = int.from_bytes(data, "big")
        self.n = len(data) * 8
        self.pos = 0

    def get(self, nbits):
        if nbits == 0:
            return 0
        if self.pos + nbits > self.n:
            raise ValueError("xtc: compressed block too short")
        out = (self.v >> (self.n - self.pos - nbits)) & ((1 << nbits) - 1)
        self.pos += nbits
        return out

    def ints(self, nbits, sizes):
        """three integers packed as one mixed-radix number whose bytes were emitted least significant first"""
        by = []
        while nbits > 8:
            by.append(self.get(8)); nbits -= 8
        if nbits > 0:
            by.append(self.get(nbits))
        big = 0
        for j, b in enumerate(by):
            big |= b << (8 * j)
        n2 = big % sizes[2]; big //= sizes[2]
        n1 = big % sizes[1]; big //= sizes[1]
        return [big, n1, n2]


def _decode(lsize, prec, minint, maxint, smallidx, data):
    sizeint = [maxint[i] - minint[i] + 1 for i in range(3)]
    if any(s > 0xFFFFFF for s in sizeint):
        bitsizeint = [max(1, int(s).bit_length()) if s else 0 for s in sizeint]
        bitsize = 0
    else:
        bitsize = (sizeint[0] * sizeint[1] * sizeint[2]).bit_length()
    smaller = MAGICINTS[max(FIRSTIDX, smallidx - 1)] // 2
    smallnum = MAGICINTS[smallidx] // 2
    sizesmall = [MAGICINTS[smallidx]] * 3
    bs = _Bits(data)
    out = []
    inv = 1.0 / prec
    i = 0
    run = 0
    while i < lsize:
        if bitsize == 0:
            this = [bs.get(bitsizeint[0]), bs.get(bitsizeint[1]), bs.get(bitsizeint[2])]
        else:
            this = bs.ints(bitsize, sizeint)
        i += 1
        this = [this[k] + minint[k] for k in range(3)]
        prev = list(this)
        flag = bs.get(1)
        is_smaller = 0
        if flag == 1:
            run = bs.get(5)
            is_smaller = run % 3
            run -= is_smaller
            is_smaller -= 1
        if run > 0:
            for k in range(0, run, 3):
                d = bs.ints(smallidx, sizesmall)
                i += 1
                cur = [d[c] + prev[c] - smallnum for c in range(3)]
                if k == 0:
                    # the first two atoms of a run are stored swapped (water: O after H)
                    cur, prev = prev, cur
                    out.append(prev)
                else:
                    prev = cur
                out.append(cur)
                if k == 0:
                    prev = out[-2]
        else:
            out.append(this)
        smallidx += is_smaller
        if is_smaller < 0:
            smallnum = smaller
            smaller = MAGICINTS[smallidx - 1] // 2 if smallidx > FIRSTIDX else 0
        elif is_smaller > 0:
            smaller = smallnum
            smallnum = MAGICINTS[smallidx] // 2
        sizesmall = [MAGICINTS[smallidx]] * 3
    if len(out) != lsize:
        raise ValueError("xtc: decoded %d atoms of %d" % (len(out), lsize))
    return np.array(out, dtype=np.int64), np.array(out, dtype=np.float64) * inv


def read_xtc(path):
    """-> list of dict(natoms, step, time, box (3x3), prec or None, xyz (natoms x 3 float64, nm), ints or None)"""
    b = open(path, "rb").read()
    o = 0
    frames = []
    while o < len(b):
        magic, natoms, step = struct.unpack(">iii", b[o:o + 12]); o += 12
        if magic != 1995:
            raise ValueError("xtc magic %d at byte %d" % (magic, o - 12))
        tm = struct.unpack(">f", b[o:o + 4])[0]; o += 4
        box = np.array(struct.unpack(">9f", b[o:o + 36]), dtype=np.float64).reshape(3, 3); o += 36
        lsize = struct.unpack(">i", b[o:o + 4])[0]; o += 4
        if lsize != natoms:
            raise ValueError("xtc: atom counts differ in one frame header")
        if lsize <= 9:
            xyz = np.array(struct.unpack(">%df" % (3 * lsize), b[o:o + 12 * lsize]), dtype=np.float64).reshape(lsize, 3); o += 12 * lsize
            frames.append(dict(natoms=natoms, step=step, time=tm, box=box, prec=None, xyz=xyz, ints=None))
            continue
        prec = struct.unpack(">f", b[o:o + 4])[0]; o += 4
        minint = struct.unpack(">3i", b[o:o + 12]); o += 12
        maxint = struct.unpack(">3i", b[o:o + 12]); o += 12
        smallidx = struct.unpack(">i", b[o:o + 4])[0]; o += 4
        nb = struct.unpack(">i", b[o:o + 4])[0]; o += 4
        data = b[o:o + nb]; o += (nb + 3) // 4 * 4
        ints, xyz = _decode(lsize, prec, minint, maxint, smallidx, data)
        frames.append(dict(natoms=natoms, step=step, time=tm, box=box, prec=prec, xyz=xyz, ints=ints))
    return frames
