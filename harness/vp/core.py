"""Check context: scratch dir, TLC access, discrepancy triage against KNOWN_FINDINGS.json,
evidence writer, exit status."""
import atexit
import json
import os
import random
import shutil
import sys
import time

from . import tlc as _tlc

VERIF = os.path.dirname(os.path.dirname(os.path.dirname(os.path.abspath(__file__))))
EVID = os.path.join(VERIF, "evidence")
KF = os.path.join(VERIF, "KNOWN_FINDINGS.json")


def load_findings():
    if not os.path.exists(KF):
        return []
    with open(KF) as f:
        return json.load(f).get("findings", [])


class Ctx:
    def __init__(self, pid, tier="quick", seed=0, replay=None):
        self.pid = pid
        self.tier = tier
        self.seed = int(seed)
        self.replay = replay
        self.rng = random.Random(self.seed * 1000003 + sum(map(ord, pid)))
        self.t0 = time.time()
        self.scratch = os.path.join(VERIF, ".cache", "run-%s-%d-%06x" % (pid, os.getpid(), random.SystemRandom().randrange(16**6)))
        os.makedirs(self.scratch, exist_ok=True)
        atexit.register(shutil.rmtree, self.scratch, True)
        self.open_findings = {f["key"]: f for f in load_findings() if f.get("property") == pid and f.get("status") == "open"}
        self.known_hits = {}      # key -> count
        self.violations = []      # list of dict
        self.states = 0
        self.transitions = 0
        self.tlc_runs = []
        self.notes = []
        self.thorough = tier == "thorough"

    # ---- TLC -------------------------------------------------------------------------------
    def tlc(self, module, cfg, what=None, must_pass=True, **kw):
        wd = os.path.join(self.scratch, "tlc")
        r = _tlc.run(module, cfg, wd, **kw)
        self.tlc_runs.append(dict(module=module, cfg=cfg, states=r.distinct, transitions=r.generated,
                                  wall_s=round(r.wall, 2), ok=r.ok, emitted=len(r.tr)))
        if must_pass:
            if not r.ok:
                # a spec-level failure on the ideal design is a machinery failure, not a verdict on the code
                sys.stderr.write("TLC FAILED for %s/%s\n%s\n" % (module, cfg, (r.violation or r.out)[-3000:]))
                self.machinery_failure("TLC run %s/%s failed" % (module, cfg))
            self.states += r.distinct
            self.transitions += r.generated
        return r

    def machinery_failure(self, msg):
        sys.stderr.write("MACHINERY FAILURE property=%s: %s\n" % (self.pid, msg))
        sys.stdout.flush()
        sys.exit(2)

    # ---- discrepancies ---------------------------------------------------------------------
    def discrepancy(self, key, what, detail, cls=None):
        """key: classification established by the driver (a named deviation reproduced exactly, or an
        input-class predicate) or None.  Only an *open* entry of KNOWN_FINDINGS.json with this very
        key keeps it from being a violation."""
        if key is not None and key in self.open_findings:
            self.known_hits[key] = self.known_hits.get(key, 0) + 1
            ex = self.__dict__.setdefault("known_examples", {}).setdefault(key, [])
            if len(ex) < 3:
                ex.append(str(what)[:400])
            return False
        self.violations.append(dict(key=key, what=what, detail=detail, cls=cls))
        return True

    # ---- evidence + exit -------------------------------------------------------------------
    def finish(self, coverage, level="model_checking", assumptions=None):
        os.makedirs(EVID, exist_ok=True)
        rep_dir = os.path.join(EVID, "replays")
        if not self.replay and os.path.isdir(rep_dir):        # replay files of earlier runs of this property are stale now
            for fn in os.listdir(rep_dir):
                if fn.startswith(self.pid + "-"):
                    os.remove(os.path.join(rep_dir, fn))
        for key, cnt in sorted(self.known_hits.items()):
            f = self.open_findings[key]
            print("KNOWN-FINDING: property=%s %s: %s (%d occurrences this run)" % (self.pid, key, f.get("what", ""), cnt))
        shown = {}
        for v in self.violations:
            k = v.get("cls") or v["key"] or v["what"]
            shown.setdefault(k, []).append(v)
        n = 0
        for k, vs in shown.items():
            n += 1
            if n > 12:
                break
            os.makedirs(rep_dir, exist_ok=True)
            path = os.path.join(rep_dir, "%s-%d.json" % (self.pid, n))
            with open(path, "w") as f:
                json.dump(dict(property=self.pid, tier=self.tier, seed=self.seed, class_key=k, count=len(vs),
                               first=vs[0], more=vs[1:4]), f, indent=1, default=str)
            print("VIOLATION property=%s replay=%s  (%s; %d cases) %s" % (self.pid, path, k, len(vs), str(vs[0]["what"])[:300]))
        cov = dict(coverage)
        cov.setdefault("states", self.states)
        cov.setdefault("transitions", self.transitions)
        cov.setdefault("traces_validated_against_impl", 0)
        cov.setdefault("samples", [])
        cov["tlc_runs"] = self.tlc_runs
        cov["known_findings_hit"] = self.known_hits
        cov["known_findings_examples"] = getattr(self, "known_examples", {})
        cov["violation_classes"] = {k: len(v) for k, v in shown.items()}
        if self.notes:
            cov["notes"] = self.notes
        if not cov["samples"]:
            cov["samples"] = ["(none)"]
        ev = dict(property_id=self.pid, tier=self.tier, seed=self.seed, level=level, coverage=cov,
                  assumptions=assumptions or [], wall_s=round(time.time() - self.t0, 2),
                  violations=len(self.violations))
        tmp = os.path.join(EVID, ".%s.%d.tmp" % (self.pid, os.getpid()))
        with open(tmp, "w") as f:
            json.dump(ev, f, indent=1, default=str)
        os.replace(tmp, os.path.join(EVID, self.pid + ".json"))
        print("%s %s: %s  states=%d transitions=%d impl_traces=%s wall=%.1fs known=%s violations=%d" % (
            self.pid, self.tier, "OK" if not self.violations else "FAIL", cov["states"], cov["transitions"],
            cov.get("traces_validated_against_impl"), time.time() - self.t0, dict(self.known_hits), len(self.violations)))
        return 1 if self.violations else 0


def stratified_sample(items, keyfn, n, rng):
    """Choose <= n items so that every stratum (keyfn value) is represented at least once."""
    if len(items) <= n:
        return list(items)
    strata = {}
    for it in items:
        strata.setdefault(keyfn(it), []).append(it)
    out = []
    keys = sorted(strata, key=str)
    per = max(1, n // max(1, len(keys)))
    rest = []
    for k in keys:
        lst = strata[k]
        rng.shuffle(lst)
        out.extend(lst[:per])
        rest.extend(lst[per:])
    if len(out) < n:
        rng.shuffle(rest)
        out.extend(rest[:n - len(out)])
    return out[:max(n, len(keys))]
