"""Synthetic trajectories whose coordinates encode (frame id, atom id), and files of them in every format.

Encoding: xyz[f, a] = ((f+1)*0.1, (a+1)*0.01, 0.5) nm  -> survives every format's precision (3 decimals in
Angstrom, XTC 1e-3 nm grid) and lets a projection recover which frames / atoms a reader returned.
"""
import gzip
import os
import shutil

import numpy as np

NA = 11   # > 9 atoms so that XTC uses its compressed path
CELL = True
# file "shapes" every reader-side check is replayed on: (atom count, unit cell written).  The second one has an atom count that
# is a multiple of 10 (full text lines in mdcrd / rst7 style formats) and no box records where the format allows that.
SHAPES = [(11, True), (20, False), (50, True)]       # the third one: atom subsets with large indices handed over in narrow integer dtypes
NEEDS_CELL = ("lammpstrj", "dtr")


def set_shape(k, ext=""):
    """select the shape used by topology()/coords()/trajectory()/write_file() defaults in this process"""
    global NA, CELL
    NA, CELL = SHAPES[k]
    if not CELL and ext.replace(".gz", "") in NEEDS_CELL:
        CELL = True


def topology(n_atoms=None):
    import mdtraj as md
    n_atoms = NA if n_atoms is None else n_atoms
    top = md.Topology()
    ch = top.add_chain()
    for i in range(n_atoms):
        r = top.add_residue("ALA", ch, resSeq=i + 1)
        top.add_atom("C%d" % i if i else "CA", md.element.carbon, r)
    return top


def coords(frames, n_atoms=None, atoms=None):
    n_atoms = NA if n_atoms is None else n_atoms
    frames = list(frames)
    atoms = list(range(n_atoms)) if atoms is None else list(atoms)
    xyz = np.zeros((len(frames), len(atoms), 3), dtype=np.float32)
    for i, f in enumerate(frames):
        xyz[i, :, 0] = (f + 1) * 0.1
        xyz[i, :, 1] = (np.asarray(atoms) + 1) * 0.01
        xyz[i, :, 2] = 0.5
    return xyz


def trajectory(n_frames, n_atoms=None, cell=None, first=0):
    import mdtraj as md
    n_atoms = NA if n_atoms is None else n_atoms
    cell = CELL if cell is None else cell
    fr = list(range(first, first + n_frames))
    kw = {}
    if cell:
        kw = dict(unitcell_lengths=np.array([[5.0 + 0.1 * f, 6.0, 7.0] for f in fr], dtype=np.float32),
                  unitcell_angles=np.full((n_frames, 3), 90.0, dtype=np.float32))
    return md.Trajectory(coords(fr, n_atoms), topology(n_atoms), time=np.asarray(fr, dtype=np.float32) * 2.0 + 1.0, **kw)


def frame_ids(xyz, scale=1.0):
    """decode frame ids from returned coordinates (scale: native unit per nm)"""
    a = np.asarray(xyz)
    if a.size == 0 or a.ndim != 3:
        return []
    out = []
    for v in a[:, 0, 0]:
        v = float(v) / scale * 10.0
        out.append(int(round(v)) - 1 if np.isfinite(v) and abs(v) < 1e6 else -1)   # garbage decodes to -1
    return out


def atom_ids(xyz, scale=1.0):
    a = np.asarray(xyz)
    if a.size == 0 or a.ndim != 3:
        return []
    out = []
    for v in a[0, :, 1]:
        v = float(v) / scale * 100.0
        out.append(int(round(v)) - 1 if np.isfinite(v) and abs(v) < 1e6 else -1)
    return out


NATIVE_SCALE = {"h5": 1.0, "xtc": 1.0, "trr": 1.0, "gro": 1.0, "lh5": 1.0}   # everything else: Angstrom


def scale_of(ext):
    e = ext.replace(".gz", "")
    return NATIVE_SCALE.get(e, 10.0)


def rm(path):
    if os.path.isdir(path) and not os.path.islink(path):
        shutil.rmtree(path)
    elif os.path.lexists(path):
        os.unlink(path)


def write_file(path, n_frames, n_atoms=None, cell=None):
    """save through mdtraj, then confirm by a full load that the file really holds frames 0..n-1
    (the writers are themselves under test in C01/C19; a file that does not verify is not used)."""
    import mdtraj as md
    rm(path)
    n_atoms = NA if n_atoms is None else n_atoms
    t = trajectory(n_frames, n_atoms, cell)
    t.save(path)
    ext = path.split(".", 1)[1]
    if ext in ("h5", "pdb", "pdb.gz", "gro", "lh5"):
        back = md.load(path)
    else:
        back = md.load(path, top=t.topology)
    if frame_ids(back.xyz) != list(range(n_frames)) or atom_ids(back.xyz) != list(range(n_atoms)):
        raise RuntimeError("generated file does not verify: " + path)
    return t


def make_arc(path, n_frames, src="/repo/tests/data/nitrogen.arc", per=214):
    """Tinker .arc cannot be written by mdtraj: cut the first n frames out of the test-data archive."""
    with open(src) as f:
        lines = f.readlines()
    with open(path, "w") as f:
        f.writelines(lines[:per * n_frames])
    ref = []
    for k in range(n_frames):
        ref.append(float(lines[k * per + 2].split()[2]))
    return ref   # x of atom 0 per frame, Angstrom
