"""Subprocess body for C08: evaluate every per-frame analysis on a fixed trajectory in three shapes (whole call, frame by
frame, permuted frames) under the OpenMP environment this process was started with; write the raw results to an .npz."""
import sys

import numpy as np


def functions():
    import mdtraj as md
    P = [[0, 5], [3, 40], [10, 200], [7, 8]]
    A3 = [[0, 1, 2], [5, 9, 30], [100, 101, 150]]
    A4 = [[0, 1, 2, 3], [5, 9, 30, 31], [100, 101, 150, 151]]

    def sup(t):
        u = md.Trajectory(t.xyz.copy(), t.topology)
        u.superpose(REF[0], 0)
        return u.xyz

    def nbr(t):
        r = md.compute_neighbors(t, 0.45, np.arange(20))
        return np.array([np.bincount(x, minlength=t.n_atoms) for x in r])

    def nlist(t):
        out = []
        for f in range(t.n_frames):
            nl = md.compute_neighborlist(t, 0.4, frame=f)
            out.append([int(sum((j + 1) * (i + 1) for j in row) % 1000003) for i, row in enumerate(nl)])
        return np.array(out)

    def dssp(t):
        return np.array([[ord(c[0]) for c in row] for row in md.compute_dssp(t, simplified=False)])

    def ks(t):
        return np.array([m.toarray() for m in md.kabsch_sander(t)])

    def wn(t):
        trip = md.baker_hubbard(REF[0], freq=0.0)
        r = md.wernet_nilsson(t)
        return np.array([len(x) for x in r] ), np.array([int(np.sum(x)) % 1000003 for x in r])
    return {
        "distances": lambda t: md.compute_distances(t, P), "displacements": lambda t: md.compute_displacements(t, P),
        "angles": lambda t: md.compute_angles(t, A3), "dihedrals": lambda t: md.compute_dihedrals(t, A4),
        "phi": lambda t: md.compute_phi(t)[1], "chi1": lambda t: md.compute_chi1(t)[1],
        "rmsd_parallel": lambda t: md.rmsd(md.Trajectory(t.xyz.copy(), t.topology), REF[0], 0, parallel=True),
        "rmsd_serial": lambda t: md.rmsd(md.Trajectory(t.xyz.copy(), t.topology), REF[0], 0, parallel=False),
        "rmsf": None, "superpose": sup,
        "shrake_rupley_atom": lambda t: md.shrake_rupley(t, n_sphere_points=100), "shrake_rupley_residue": lambda t: md.shrake_rupley(t, n_sphere_points=60, mode="residue"),
        "dssp": dssp, "kabsch_sander": ks, "wernet_nilsson": lambda t: wn(t)[1],
        "neighbors": nbr, "neighborlist": nlist,
        "contacts_closest": lambda t: md.compute_contacts(t, [[0, 5], [2, 9], [1, 20]], scheme="closest-heavy")[0],
        # soft minimum over the atom pairs of each residue pair (a per-frame log-sum-exp; residue pairs at all separations)
        "contacts_softmin": lambda t: md.compute_contacts(t, [[i, j] for i in range(0, 22, 3) for j in range(i + 3, 22, 4)], scheme="closest-heavy", soft_min=True)[0],
        "contacts_softmin_beta5": lambda t: md.compute_contacts(t, [[0, 5], [2, 9], [1, 20], [3, 12]], scheme="closest", soft_min=True, soft_min_beta=5.0)[0],
        "contacts_ca": lambda t: md.compute_contacts(t, "all", scheme="ca")[0],
        "rg": lambda t: md.compute_rg(t), "drid": lambda t: md.compute_drid(t, atom_indices=np.arange(0, 60, 3)),
        "center_of_mass": lambda t: md.compute_center_of_mass(t), "gyration_tensor": lambda t: md.compute_gyration_tensor(t),
        "inertia": lambda t: md.compute_inertia_tensor(t), "asphericity": lambda t: md.asphericity(t),
    }


REF = []


def prelude():
    """calls of the same analyses on another system, with other (mostly larger) parameters"""
    import mdtraj as md
    u = md.load("/repo/tests/data/1bpi.pdb")
    u.unitcell_vectors = np.tile(np.diag([9.0, 8.0, 7.5]).astype(np.float32), (u.n_frames, 1, 1))
    n = u.n_atoms
    md.shrake_rupley(u, n_sphere_points=960); md.shrake_rupley(u, n_sphere_points=333, mode="residue", probe_radius=0.2)
    md.compute_neighbors(u, 0.9, np.arange(50)); md.compute_neighborlist(u, 0.8)
    md.compute_dssp(u); md.kabsch_sander(u); md.baker_hubbard(u); md.wernet_nilsson(u)
    md.rmsd(md.Trajectory(u.xyz.copy(), u.topology), u, 0); md.Trajectory(u.xyz.copy(), u.topology).superpose(u, 0)
    md.compute_distances(u, [[i, n - 1 - i] for i in range(100)]); md.compute_displacements(u, [[1, 2], [n - 1, 0]])
    md.compute_angles(u, [[i, i + 1, i + 2] for i in range(60)]); md.compute_dihedrals(u, [[i, i + 1, i + 2, i + 3] for i in range(60)])
    md.compute_phi(u); md.compute_chi1(u); md.compute_contacts(u, "all", scheme="closest"); md.compute_contacts(u, "all", scheme="ca")
    md.compute_rg(u); md.compute_drid(u); md.compute_center_of_mass(u); md.compute_gyration_tensor(u); md.compute_inertia_tensor(u); md.asphericity(u)


def main(out):
    import warnings
    warnings.simplefilter("ignore")
    sys.path.insert(0, "/verif/harness")
    from vp import build
    build.activate()
    import mdtraj as md
    t = md.load("/repo/tests/data/2EQQ.pdb")[:9]
    # give it a unit cell so the periodic code paths run too (box far larger than the protein)
    t.unitcell_vectors = np.tile(np.diag([6.0, 6.5, 7.0]).astype(np.float32), (t.n_frames, 1, 1))
    REF.append(md.Trajectory(t.xyz[4:5].copy(), t.topology))
    perm = [3, 7, 0, 8, 1, 5, 2, 6, 4]
    # a second trajectory for the periodic analyses: rectangular and triclinic cells take turns from frame to frame and every
    # seventh atom is moved by lattice vectors of its own frame's cell, so that the minimum image really needs each frame's own
    # (off-diagonal) box: a frame's result may not depend on the shapes of the OTHER frames' cells
    tp = md.Trajectory(t.xyz.copy(), t.topology)
    L = np.tile(np.array([6.0, 6.5, 7.0], dtype=np.float32), (t.n_frames, 1)) + 0.1 * np.arange(t.n_frames, dtype=np.float32)[:, None]
    A = np.tile(np.array([90.0, 90.0, 90.0], dtype=np.float32), (t.n_frames, 1))
    A[1::2] = np.array([75.0, 100.0, 110.0], dtype=np.float32)
    tp.unitcell_lengths = L; tp.unitcell_angles = A
    V = tp.unitcell_vectors.astype(np.float64)
    rsp = np.random.RandomState(5)
    xp = tp.xyz.astype(np.float64)
    for f in range(tp.n_frames):
        idx = np.arange(f % 7, tp.n_atoms, 7)
        xp[f, idx] += rsp.randint(-1, 2, size=(len(idx), 3)) @ V[f]
    tp.xyz = xp.astype(np.float32)
    # a third one: a hexagonal-prism like cell whose a and b vectors never change while the height and one tilt component do
    # (constant-area runs): a frame's result may not depend on which components it happens to share with its predecessor
    tq = md.Trajectory(t.xyz.copy(), t.topology)
    Vq = np.zeros((t.n_frames, 3, 3))
    for f in range(t.n_frames):
        Vq[f] = [[6.0, 0.0, 0.0], [-3.0, 5.2 + (0.3 * (f % 3) if f % 2 else 0.0), 0.0], [0.0, 1.0 + 0.4 * (f % 4), 6.5 + 0.25 * f]]
    tq.unitcell_vectors = Vq.astype(np.float32)
    Vq = tq.unitcell_vectors.astype(np.float64)
    xq = tq.xyz.astype(np.float64)
    for f in range(tq.n_frames):
        idx = np.arange((f + 3) % 5, tq.n_atoms, 5)
        xq[f, idx] += rsp.randint(-1, 2, size=(len(idx), 3)) @ Vq[f]
    tq.xyz = xq.astype(np.float32)
    # a fourth one: a sheared cell at constant extents (box deformation runs): consecutive frames share a_x, b_y and c_z to the bit and
    # differ in the tilt components only; the first frame is the rectangular cell of the same extents.  The cells go through the
    # lengths/angles representation, so candidates are drawn and those whose stored diagonal comes out identical are kept.
    rsh = np.random.RandomState(11)
    cand = np.zeros((900, 3, 3))
    cand[:, 0, 0] = 6.0; cand[:, 1, 1] = 6.5; cand[:, 2, 2] = 7.0
    cand[1:, 1, 0] = rsh.uniform(-2.9, 2.9, 899); cand[1:, 2, 0] = rsh.uniform(-2.9, 2.9, 899); cand[1:, 2, 1] = rsh.uniform(-3.1, 3.1, 899)
    probe = md.Trajectory(np.zeros((900, 1, 3), dtype=np.float32), None)
    probe.unitcell_vectors = cand.astype(np.float32)
    pv = probe.unitcell_vectors
    same = [i for i in range(900) if pv[i, 0, 0] == pv[0, 0, 0] and pv[i, 1, 1] == pv[0, 1, 1] and pv[i, 2, 2] == pv[0, 2, 2]]
    tsh = None
    if len(same) >= t.n_frames:
        tsh = md.Trajectory(t.xyz.copy(), t.topology)
        tsh.unitcell_lengths = probe.unitcell_lengths[same[:t.n_frames]]; tsh.unitcell_angles = probe.unitcell_angles[same[:t.n_frames]]
        Vs = tsh.unitcell_vectors.astype(np.float64)
        xs = tsh.xyz.astype(np.float64)
        for f in range(tsh.n_frames):
            idx = np.arange((f + 1) % 3, tsh.n_atoms, 3)
            xs[f, idx] += rsp.randint(-1, 2, size=(len(idx), 3)) @ Vs[f]
        tsh.xyz = xs.astype(np.float32)
    MIXED = ("distances", "displacements", "angles", "dihedrals", "phi", "chi1", "contacts_closest", "contacts_ca", "wernet_nilsson", "neighbors", "neighborlist")
    import os
    if os.environ.get("HISTORY") == "1":
        prelude()
    res = {}
    fs = functions()
    jobs = [(name, f, t) for name, f in fs.items()] + [(name + "@mixedcells", fs[name], tp) for name in MIXED] \
        + [(name + "@constant_ab", fs[name], tq) for name in MIXED] + [(name + "@shear", fs[name], tsh) for name in MIXED if tsh is not None]
    res["@meta:shear_frames_found"] = np.array([len(same)])
    for name, f, t in jobs:
        if f is None:
            continue
        try:
            whole = np.asarray(f(t))
            alone = np.concatenate([np.asarray(f(t[i])) for i in range(t.n_frames)])
            pm = np.asarray(f(t[perm]))
            unperm = np.empty_like(pm)
            unperm[perm] = pm
            res[name + "|whole"] = whole
            res[name + "|alone"] = alone
            res[name + "|perm"] = unperm
        except Exception as e:  # noqa
            res[name + "|error"] = np.frombuffer(("%s: %s" % (type(e).__name__, e)).encode()[:200], dtype=np.uint8)
    np.savez(out, **res)


if __name__ == "__main__":
    main(sys.argv[1])
