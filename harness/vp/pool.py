"""Fork-based worker pool with a per-task watchdog.  A task that does not return within `timeout`
seconds is a verdict ("HANG"), the worker is killed and replaced; the harness never hangs with it.

The parent must not have run any OpenMP parallel region before forking (libgomp is not fork-safe);
drivers therefore only *import* mdtraj in the parent and call it exclusively inside workers.
"""
import multiprocessing as mp
import os
import time
import traceback
from multiprocessing.connection import wait

_CTX = mp.get_context("fork")


def _worker(conn, fn, init, env, fresh=False):
    if env:
        os.environ.update(env)
    if fresh:   # throw-away workers are used for calls known to corrupt the heap: keep glibc's abort chatter off stderr
        try:
            fd = os.open(os.devnull, os.O_WRONLY)
            os.dup2(fd, 2)
        except OSError:
            pass
    state = init() if init else None
    while True:
        try:
            msg = conn.recv()
        except EOFError:
            return
        if msg is None:
            return
        for idx, task in msg:
            try:
                r = fn(task, state) if init else fn(task)
                conn.send((idx, "ok", r))
            except BaseException as e:  # noqa
                conn.send((idx, "err", "%s: %s\n%s" % (type(e).__name__, e, traceback.format_exc()[-1500:])))
        conn.send(("batch-done", None, None))
        if fresh:
            os._exit(0)


class _W:
    def __init__(self, fn, init, env, fresh=False):
        self.parent, child = _CTX.Pipe()
        self.p = _CTX.Process(target=_worker, args=(child, fn, init, env, fresh), daemon=True)
        self.fresh = fresh
        self.p.start()
        child.close()
        self.pending = []   # list of (idx, task) not yet answered, in order
        self.active = False  # a batch has been sent and its batch-done has not been received yet
        self.t_last = time.time()

    def kill(self):
        try:
            self.p.kill()
            self.p.join(2)
        except Exception:
            pass
        try:
            self.parent.close()
        except Exception:
            pass


def run_tasks(fn, tasks, workers=16, timeout=60.0, batch=16, init=None, env=None, on_result=None, fresh=False, _depth=0):
    """Run fn(task) for every task; returns list of (status, value) aligned with tasks where
    status in {"ok","err","hang","died"}."""
    tasks = list(tasks)
    n = len(tasks)
    results = [None] * n
    if n == 0:
        return results
    workers = max(1, min(workers, (n + batch - 1) // batch))
    nxt = 0
    ws = []
    done = 0

    def feed(w):
        nonlocal nxt
        if nxt >= n:
            return False
        chunk = [(i, tasks[i]) for i in range(nxt, min(n, nxt + batch))]
        nxt += len(chunk)
        w.pending = list(chunk)
        w.active = True
        w.t_last = time.time()
        w.parent.send(chunk)
        return True

    for _ in range(workers):
        w = _W(fn, init, env, fresh)
        ws.append(w)
        feed(w)
    retry = []   # tasks to be re-run alone after a hang/death of a batch-mate (they were never started)
    while done < n:
        # a worker is busy from the moment a batch is sent until its batch-done arrives (NOT merely while results are outstanding:
        # its last result can be consumed before the batch-done message, and handing it more work then would desynchronise the bookkeeping)
        busy = [w for w in ws if w.active]
        if not busy:
            # hand out leftovers (from killed workers) one by one
            if retry:
                for w in ws:
                    if not w.active and retry:
                        chunk = [retry.pop()]
                        w.pending = list(chunk)
                        w.active = True
                        w.t_last = time.time()
                        w.parent.send(chunk)
                continue
            if nxt < n:
                for w in ws:
                    if not w.active:
                        feed(w)
                continue
            break
        ready = wait([w.parent for w in busy], timeout=1.0)
        now = time.time()
        for w in busy:
            if w.parent in ready:
                try:
                    while w.parent.poll():
                        idx, st, val = w.parent.recv()
                        w.t_last = now
                        if idx == "batch-done":
                            w.pending = []
                            w.active = False
                            if fresh:
                                w.kill()
                                ws.remove(w)
                                w = _W(fn, init, env, fresh)
                                ws.append(w)
                            if retry:
                                chunk = [retry.pop()]
                                w.pending = list(chunk)
                                w.active = True
                                w.parent.send(chunk)
                            else:
                                feed(w)
                            continue
                        results[idx] = (st, val)
                        done += 1
                        if on_result:
                            on_result(idx, st, val)
                        w.pending = [t for t in w.pending if t[0] != idx]
                except (EOFError, OSError):
                    # worker died (segfault etc.)
                    if w.pending:
                        idx, _t = w.pending[0]
                        results[idx] = ("died", "worker process died (exit %s)" % w.p.exitcode)
                        done += 1
                        if on_result:
                            on_result(idx, "died", results[idx][1])
                        retry.extend(w.pending[1:])
                    w.kill()
                    ws.remove(w)
                    nw = _W(fn, init, env, fresh)
                    ws.append(nw)
                    continue
            elif w.active and w.pending and now - w.t_last > timeout:
                idx, _t = w.pending[0]
                results[idx] = ("hang", "no result within %.0fs" % timeout)
                done += 1
                if on_result:
                    on_result(idx, "hang", results[idx][1])
                retry.extend(w.pending[1:])
                w.kill()
                ws.remove(w)
                nw = _W(fn, init, env, fresh)
                ws.append(nw)
    lost = [i for i in range(n) if results[i] is None]
    if lost:
        import sys
        sys.stderr.write("pool: %d results lost (done=%d n=%d nxt=%d retry=%d pending=%s) lost=%s alive=%s\n" % (
            len(lost), done, n, nxt, len(retry), [len(w.pending) for w in ws], lost[:40], [w.p.is_alive() for w in ws]))
    if lost and _depth == 0:
        again = run_tasks(fn, [tasks[i] for i in lost], workers=workers, timeout=timeout, batch=1, init=init, env=env,
                          on_result=None, fresh=fresh, _depth=1)
        for i, r in zip(lost, again):
            results[i] = r
            if on_result:
                on_result(i, r[0], r[1])
        lost = []
    if lost:
        # never evidence about the code under test: a bookkeeping failure of this pool
        raise RuntimeError("pool: %d results lost without a crashed worker (machinery failure)" % len(lost))
    for w in ws:
        try:
            w.parent.send(None)
        except Exception:
            pass
    for w in ws:
        w.p.join(1)
        if w.p.is_alive():
            w.kill()
    return results
