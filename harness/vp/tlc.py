"""Run TLC (model checking / simulation / trace validation) and parse what it prints."""
import json
import os
import re
import shutil
import subprocess
import time

VERIF = os.path.dirname(os.path.dirname(os.path.dirname(os.path.abspath(__file__))))
SPECS = os.path.join(VERIF, "specs")
JAR = "/opt/veriftools/tla/tla2tools.jar"
CM = "/opt/veriftools/tla/CommunityModules-deps.jar"


class TlcError(Exception):
    pass


def _classpath():
    cps = [JAR]
    d = os.path.dirname(JAR)
    for fn in sorted(os.listdir(d)):
        if fn.endswith(".jar") and fn != os.path.basename(JAR):
            cps.append(os.path.join(d, fn))
    return ":".join(cps)


class Result:
    def __init__(self):
        self.generated = 0      # transitions ("states generated")
        self.distinct = 0       # distinct states
        self.depth = 0
        self.ok = False
        self.violation = None   # text of invariant / property violation
        self.tr = []            # decoded "TR" payloads
        self.out = ""
        self.wall = 0.0
        self.coverage = {}      # action name -> (total, distinct)
        self.prints = []        # other PrintT tuples (raw strings)


_TR = '<<"TR", '


def parse_tr_line(line):
    """line is `<<"TR", "...json...">>`"""
    inner = json.loads(line[len(_TR):line.rindex(">>")])
    return json.loads(inner)


def run(module, cfg, workdir, workers=16, simulate=None, depth=None, seed=None, timeout=900,
        coverage=False, env=None, heap="6g", keep_tr=True, tr_sink=None, deadlock=None, extra=None,
        dfs=False, cfg_text=None):
    """Run TLC on specs/<module>.tla with specs/<cfg> (copied into workdir so that metadata,
    generated TTrace files etc. never land in the repository of specs)."""
    os.makedirs(workdir, exist_ok=True)
    # copy all specs (small) so EXTENDS / INSTANCE resolve
    for root, _, files in os.walk(SPECS):
        for fn in files:
            if fn.endswith((".tla", ".cfg")):
                shutil.copy(os.path.join(root, fn), os.path.join(workdir, fn))
    if cfg_text is not None:
        with open(os.path.join(workdir, os.path.basename(cfg)), "w") as f:
            f.write(cfg_text)
    meta = os.path.join(workdir, "meta-%s-%d" % (cfg.replace("/", "_"), int(time.time() * 1000) % 10**9))
    jopts = ["-Xmx" + heap, "-XX:+UseParallelGC", "-Xss256m"]
    if dfs:
        jopts.append("-Dtlc2.tool.queue.IStateQueue=StateDeque")
    cmd = ["java"] + jopts + ["-cp", _classpath(), "tlc2.TLC", "-metadir", meta, "-noGenerateSpecTE",
           "-config", os.path.basename(cfg), "-workers", str(workers)]
    if simulate is not None:
        cmd += ["-simulate", "num=%d" % simulate]
    if depth is not None:
        cmd += ["-depth", str(depth)]
    if seed is not None:
        cmd += ["-seed", str(seed)]
    if coverage:
        cmd += ["-coverage", "1"]
    if deadlock is False:
        cmd += ["-deadlock"]
    if extra:
        cmd += list(extra)
    cmd.append(module)
    e = dict(os.environ)
    e.pop("JAVA_TOOL_OPTIONS", None)
    if env:
        e.update(env)
    t0 = time.time()
    res = Result()
    outpath = os.path.join(workdir, "tlc-%s.out" % os.path.basename(cfg))
    with open(outpath, "w") as fo:
        try:
            p = subprocess.run(cmd, cwd=workdir, stdout=fo, stderr=subprocess.STDOUT, env=e, timeout=timeout)
            rc = p.returncode
        except subprocess.TimeoutExpired:
            rc = -9
    res.wall = time.time() - t0
    res.rc = rc
    tail = []
    pending = None
    with open(outpath, "r", errors="replace") as f:
        for line in f:
            if line.startswith(_TR):
                try:
                    v = parse_tr_line(line)
                except Exception:
                    continue
                if tr_sink is not None:
                    tr_sink(v)
                elif keep_tr:
                    res.tr.append(v)
                continue
            if pending is not None:
                # TLC pretty-prints long values over several lines: join until the tuple brackets balance
                pending += " " + line.strip()
                if pending.count("<<") <= pending.count(">>"):
                    res.prints.append(re.sub(r"^<<\s+", "<<", pending))
                    pending = None
                continue
            if line.startswith("<<"):
                txt = line.rstrip("\n")
                if txt.count("<<") > txt.count(">>"):
                    pending = txt
                else:
                    res.prints.append(re.sub(r"^<<\s+", "<<", txt))
                continue
            tail.append(line)
            if len(tail) > 4000:
                del tail[:2000]
    res.out = "".join(tail)
    m = re.findall(r"(\d+) states generated, (\d+) distinct states found", res.out)
    if m:
        res.generated, res.distinct = int(m[-1][0]), int(m[-1][1])
    m = re.findall(r"The depth of the complete state graph search is (\d+)", res.out)
    if m:
        res.depth = int(m[-1])
    for mm in re.finditer(r"^<(\w+) line \d+, col \d+ to line \d+, col \d+ of module (\w+)>: (\d+):(\d+)", res.out, re.M):
        res.coverage[mm.group(1)] = (int(mm.group(3)), int(mm.group(4)))
    if "Error:" in res.out or "is violated" in res.out or "Exception" in res.out:
        i = res.out.find("Error:")
        res.violation = res.out[i:i + 3000] if i >= 0 else res.out[-3000:]
    res.ok = (rc == 0) and res.violation is None
    shutil.rmtree(meta, ignore_errors=True)
    if rc == -9:
        res.violation = "TLC timeout after %ss" % timeout
    return res


def require_ok(res, what):
    if not res.ok:
        raise TlcError("%s: TLC failed (rc=%s)\n%s" % (what, getattr(res, "rc", "?"), (res.violation or res.out)[-3000:]))
    return res
