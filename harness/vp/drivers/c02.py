"""C02 — partial loading equals slicing the fully loaded trajectory.
spec: specs/Loader.tla.  Binding: every configuration of the bounded model replayed on every readable format."""
import json
import os

import numpy as np

from .. import pool, trajgen
from ..core import stratified_sample

FORMATS = ["h5", "xtc", "trr", "dcd", "nc", "mdcrd", "xyz", "xyz.gz", "lammpstrj", "gro", "pdb", "pdb.gz", "dtr"]
TOPEXT = ("h5", "pdb", "pdb.gz", "gro")   # carry their own topology

CFG = """SPECIFICATION Spec
CONSTANTS MaxN = %(MaxN)d
 MaxStride = %(MaxStride)d
 AtomSets <- AtomSetsDef
 Dev = {%(dev)s}
INVARIANT ConcatIsStridedSkipped
INVARIANT ChunkSizes
INVARIANT OneChunkWhenZero
INVARIANT LoadIsSlice
INVARIANT FrameIsIndex
INVARIANT ListIsJoin
PROPERTY Terminates
ACTION_CONSTRAINT Emit
CHECK_DEADLOCK FALSE
"""
CFG_DEV = """SPECIFICATION Spec
CONSTANTS MaxN = %(MaxN)d
 MaxStride = %(MaxStride)d
 AtomSets <- AtomSetsDef
 Dev = {%(dev)s}
ACTION_CONSTRAINT Emit
CHECK_DEADLOCK FALSE
"""

_dir = None
_full = {}


def _path(ext, n, first=0, shape=0):
    return os.path.join(_dir, "t%d_%d_%d.%s" % (shape, n, first, ext))


def _prepare(scratch, maxn):
    global _dir
    _dir = os.path.join(scratch, "files")
    os.makedirs(_dir, exist_ok=True)
    for shape in range(len(trajgen.SHAPES)):
        for ext in FORMATS:
            trajgen.set_shape(shape, ext)
            for n in range(1, maxn + 1):
                trajgen.write_file(_path(ext, n, 0, shape), n)
                for first in range(1, maxn + 1):     # second file of a list: frames first..first+n-1
                    p = _path(ext, n, first, shape)
                    trajgen.rm(p)
                    trajgen.trajectory(n, first=first).save(p)
    trajgen.set_shape(0)


def _full_load(path, ext):
    import mdtraj as md
    key = path
    if key not in _full:
        kw = {} if ext in TOPEXT else {"top": trajgen.topology()}
        _full[key] = md.load(path, **kw)
    return _full[key]


def _obs_chunk(t):
    return dict(ids=trajgen.frame_ids(t.xyz), atoms=trajgen.atom_ids(t.xyz) if t.n_frames else [],
                n_top=t.topology.n_atoms if t.topology is not None else -1,
                names=[a.name for a in t.topology.atoms] if t.topology is not None else [])


def _fields_match(t, full, ids, atoms, what):
    """partial load must equal the same frames/atoms of the full load on every field"""
    bad = []
    ids = [i for i in ids if 0 <= i < full.n_frames]
    if len(ids) != t.n_frames:
        return bad
    sel = full.xyz[ids][:, atoms] if atoms else full.xyz[ids]
    if sel.shape != t.xyz.shape or not np.array_equal(sel, t.xyz):
        bad.append(what + ":xyz")
    if not np.allclose(full.time[ids], t.time, rtol=0, atol=1e-6):
        bad.append(what + ":time")
    fl, tl = full.unitcell_lengths, t.unitcell_lengths
    if (fl is None) != (tl is None):
        bad.append(what + ":cell-presence")
    elif fl is not None and (not np.array_equal(np.asarray(fl[ids], dtype=np.float32), np.asarray(tl, dtype=np.float32))
                             or not np.array_equal(np.asarray(full.unitcell_angles[ids], dtype=np.float32),
                                                   np.asarray(t.unitcell_angles, dtype=np.float32))):
        bad.append(what + ":cell")
    exp_names = [a.name for a in full.topology.atoms]
    exp_names = [exp_names[a] for a in atoms] if atoms else exp_names
    if [a.name for a in t.topology.atoms] != exp_names:
        bad.append(what + ":topology")
    return bad


def _replay(task):
    import mdtraj as md
    ext, c = task[0], task[1]
    shape = task[2] if len(task) > 2 else 0
    trajgen.set_shape(shape, ext)
    kind, n, atoms = c["kind"], c["n"], list(c["atoms"])
    path = _path(ext, n, 0, shape)
    topkw = {} if ext in TOPEXT else {"top": trajgen.topology()}
    if shape == 2 and atoms:
        # 50-atom files: the subset is spread over large indices and handed over as a narrow integer array (3*index overflows int8 /
        # uint8 arithmetic): the result may not depend on the dtype the caller happens to use
        atoms = [4 * i + 5 for i in atoms]
        akw = {"atom_indices": np.array(atoms, dtype=[np.int8, np.uint8, np.int16][(len(atoms) + c["n"]) % 3])}
    else:
        akw = {"atom_indices": np.array(atoms)} if atoms else {}
    full = _full_load(path, ext)
    obs = dict(status="ok", chunks=[])
    fbad = []
    try:
        if kind == "iterload":
            cap = n + 3
            for k, t in enumerate(md.iterload(path, chunk=c["chunk"], stride=c["stride"], skip=c["skip"], **topkw, **akw)):
                if k >= cap:
                    obs["status"] = "nonterminating"
                    break
                oc = _obs_chunk(t)
                obs["chunks"].append(oc["ids"])
                obs.setdefault("atoms", oc["atoms"])
                fbad += _fields_match(t, full, oc["ids"], atoms, "chunk%d" % k)
        elif kind == "load":
            skw = {"stride": c["stride"]} if c["stride"] > 1 else {}
            t = md.load(path, **topkw, **akw, **skw)
            oc = _obs_chunk(t); obs["chunks"].append(oc["ids"]); obs["atoms"] = oc["atoms"]
            fbad += _fields_match(t, full, oc["ids"], atoms, "load")
        elif kind in ("load_frame", "load_frame_kw"):
            if kind == "load_frame":
                t = md.load_frame(path, c["frame"], **topkw, **akw)
            else:
                t = md.load(path, frame=c["frame"], **topkw, **akw)
            oc = _obs_chunk(t); obs["chunks"].append(oc["ids"]); obs["atoms"] = oc["atoms"]
            fbad += _fields_match(t, full, oc["ids"], atoms, "frame")
        elif kind == "load_list":
            p2 = _path(ext, c["n2"], n, shape)
            skw = {"stride": c["stride"]} if c["stride"] > 1 else {}
            t = md.load([path, p2], **topkw, **akw, **skw)
            oc = _obs_chunk(t); obs["chunks"].append(oc["ids"]); obs["atoms"] = oc["atoms"]
            f2 = _full_load(p2, ext)
            j = md.join([md.load(path, **topkw, **akw, **skw), md.load(p2, **topkw, **akw, **skw)], check_topology=False)
            if not (np.array_equal(j.xyz, t.xyz) and np.array_equal(j.time, t.time)
                    and ((j.unitcell_lengths is None) == (t.unitcell_lengths is None))
                    and (j.unitcell_lengths is None or np.array_equal(j.unitcell_lengths, t.unitcell_lengths))):
                fbad.append("list:not-join-of-loads")
    except Exception as e:  # noqa
        obs["status"] = "raises"
        obs["exc"] = "%s: %s" % (type(e).__name__, str(e)[:200])
    obs.setdefault("atoms", [])
    exp_atoms = atoms if atoms else list(range(trajgen.NA))
    ok = (obs["status"] == "ok" and obs["chunks"] == [list(x) for x in c["out"]]
          and (obs["atoms"] == exp_atoms or not any(obs["chunks"])) and not fbad)
    if ok:
        return None
    obs["field_mismatch"] = sorted(set(x.split(":", 1)[1] for x in fbad))
    return obs


def _ckey(c):
    return (c["kind"], c["n"], c["n2"], c["chunk"], c["stride"], c["skip"], c["frame"], tuple(c["atoms"]))


def _feature(c):
    return (c["kind"], c["stride"] > 1, c["skip"] > 0, c["skip"] == c["n"], c["chunk"] == 0,
            c["chunk"] > 0 and c["chunk"] % c["stride"] != 0, c["chunk"] > c["n"], bool(c["atoms"]))


def _hazard(t):
    ext, c = t[0], t[1]
    return ext == "trr" and c["stride"] > 1 and len(c["atoms"]) > 0 and c["kind"] in ("iterload", "load", "load_list")


def run(ctx):
    maxn, maxs = (6, 4) if ctx.thorough else (4, 3)
    r = ctx.tlc("Loader", "Loader_ideal.cfg", cfg_text=CFG % dict(MaxN=maxn, MaxStride=maxs, dev=""), workers=8)
    configs = r.tr
    try:
        _prepare(ctx.scratch, maxn)
    except Exception as e:
        ctx.machinery_failure("cannot prepare test files: %r" % (e,))
    tasks = [(ext, c, shape) for shape in range(len(trajgen.SHAPES)) for ext in FORMATS for c in configs if shape < 2 or c["atoms"]]
    if ctx.replay:
        rp = json.load(open(ctx.replay))
        tasks = [tuple(rp["first"]["detail"]["task"])]
    elif not ctx.thorough and len(tasks) > 40000:
        tasks = stratified_sample(tasks, lambda t: (t[0], t[2]) + _feature(t[1]), 40000, ctx.rng)
    # TRR with stride>1 and an atom subset overflows a heap buffer in the pinned code (known finding): such calls
    # run one per throw-away process so that heap corruption cannot leak into the verdict of any other task
    haz = [t for t in tasks if _hazard(t)]
    if not ctx.thorough and not ctx.replay:
        haz = stratified_sample(haz, lambda t: _feature(t[1]), 48, ctx.rng)
    safe = [t for t in tasks if not _hazard(t)]
    res = pool.run_tasks(_replay, safe, workers=16, timeout=40, batch=32)
    res += pool.run_tasks(_replay, haz, workers=16, timeout=40, batch=1, fresh=True)
    tasks = safe + haz
    fails = []
    for t, (st, val) in zip(tasks, res):
        if st == "ok" and val is None:
            continue
        if st != "ok":
            val = dict(status=st, chunks=[], atoms=[], field_mismatch=[], exc=str(val)[:300])
        fails.append((t, val))
    # ---- triage against the deviation-enabled specification -------------------------------------------
    dev_expect = {}
    for ext in sorted(set(t[0] for t, _ in fails)):
        devs = sorted(k.split(":", 1)[1] for k in ctx.open_findings if k.startswith(ext + ":"))
        if devs:
            rr = ctx.tlc("Loader", "Loader_dev_%s.cfg" % ext.replace(".", "_"), must_pass=False, workers=8,
                         cfg_text=CFG_DEV % dict(MaxN=maxn, MaxStride=maxs, dev=", ".join('"%s"' % d for d in devs)))
            dev_expect[ext] = {_ckey(c): c for c in rr.tr}
    for (ext, c, shape), v in fails:
        key = None
        d = dev_expect.get(ext, {}).get(_ckey(c))
        if d is not None and d.get("dev") and "%s:%s" % (ext, d["dev"]) in ctx.open_findings:
            if d["status"] == "undefined":
                same = True          # undefined behaviour (heap overflow): any outcome belongs to the finding
            elif d["status"] == "ok":
                same = v["status"] == "ok" and v["chunks"] == [list(x) for x in d["out"]] and not v["field_mismatch"]
            else:
                same = v["status"] == d["status"]
            if same:
                key = "%s:%s" % (ext, d["dev"])
        what = "%s [%d atoms, %s] %s: expected chunks %s observed %s %s %s" % (
            ext, trajgen.SHAPES[shape][0], "cell" if trajgen.SHAPES[shape][1] else "no cell", json.dumps({k: c[k] for k in ("kind", "n", "n2", "chunk", "stride", "skip", "frame", "atoms")}),
            json.dumps(c["out"]), v["status"], json.dumps(v["chunks"])[:200], v.get("exc", "") or v["field_mismatch"])
        cls = "%s %s %s%s" % (ext, c["kind"], v["status"] if v["status"] != "ok" else
                              ("field mismatch %s" % v["field_mismatch"] if v["chunks"] == [list(x) for x in c["out"]] else "wrong frames/atoms"),
                              " [chunk=0]" if c["kind"] == "iterload" and c["chunk"] == 0 else "")
        ctx.discrepancy(key, what, dict(task=[ext, c, shape], observed=v), cls=cls)
    samples = [dict(format=t[0], config=t[1]) for t in tasks[:: max(1, len(tasks) // 3)][:3]]
    cov = dict(traces_validated_against_impl=len(tasks), replays_failing=len(fails), configurations=len(configs),
               formats=FORMATS, MaxN=maxn, MaxStride=maxs, samples=samples,
               explanation="every (kind, N, chunk, stride, skip, frame, atoms) configuration of Loader.tla replayed through "
                           "md.iterload / md.load / md.load_frame / md.load([..]) on each format, on files of two shapes (11 atoms with cell; 20 atoms, no cell where the format allows); chunk frame ids, atom ids, and "
                           "bitwise equality of xyz/time/cell/topology names with the full load are compared")
    return ctx.finish(cov, "model_checking",
                      ["files are written by mdtraj's writers and verified by full load",
                       "iterload generators are cut off after N+3 chunks (verdict: nonterminating)"])
