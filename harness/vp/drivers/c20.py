"""C20 — existing files are never modified unless overwriting was requested.
spec: specs/FileGuard.tla.  Binding: every transition replayed in a temp directory with sha256 of every path."""
import hashlib
import json
import os
import shutil

import numpy as np

from .. import pool, trajgen
from . import c19

SAVE_EXTS = ["xtc", "trr", "pdb", "pdb.gz", "dcd", "h5", "nc", "netcdf", "ncdf", "ncrst", "crd", "mdcrd",
             "lammpstrj", "xyz", "xyz.gz", "gro", "rst7", "dtr"]
MULTI = ("rst7", "ncrst")
TOPEXT = ("h5", "pdb", "pdb.gz", "gro")
LOWLEVEL = {"netcdf": "nc", "ncdf": "nc", "crd": "mdcrd", "xyz.gz": "xyz", "pdb.gz": "pdb"}

CFG = """SPECIFICATION Spec
CONSTANTS PreKinds = {%(kinds)s}
 D = %(D)d
 MultiFile = %(multi)s
 NF = %(nf)d
PROPERTY NoClobber
PROPERTY RefusedIffExists
PROPERTY FullReplace
PROPERTY ReadsPure
ACTION_CONSTRAINT Emit
CHECK_DEADLOCK FALSE
"""


def _at(m, k):
    """TLC's ToJson renders a function with domain 0..n as an object keyed by strings (or a list when the domain is 1..n)"""
    return m[str(k)] if isinstance(m, dict) else m[k]


def _hash(path):
    if not os.path.lexists(path):
        return "absent"
    h = hashlib.sha256()
    if os.path.isdir(path):
        h.update(b"DIR")
        for root, dirs, files in sorted(os.walk(path)):
            dirs.sort()
            for fn in sorted(files):
                p = os.path.join(root, fn)
                h.update(os.path.relpath(p, path).encode())
                with open(p, "rb") as f:
                    h.update(f.read())
    else:
        with open(path, "rb") as f:
            h.update(f.read())
    return h.hexdigest()


def _size(path):
    if os.path.isdir(path):
        return sum(os.path.getsize(os.path.join(r, fn)) for r, _, fs in os.walk(path) for fn in fs)
    return os.path.getsize(path)


def _fname(d, ext, k, nf=2):
    """the path itself (k = 0) or its k-th numbered companion, zero-padded to the width of the frame count as mdtraj names them"""
    return os.path.join(d, "t." + ext + ("" if k == 0 else ".%0*d" % (len(str(nf)), k)))


def _traj(first, n):
    return trajgen.trajectory(n, first=first)


def _put(path, ext, content, k):
    """realise pre-existing content"""
    kind = content[1]
    trajgen.rm(path)
    if content[0] == "absent":
        return
    if kind == "junk":
        with open(path, "wb") as f:
            f.write(b"unrelated bytes \x00\x01\x02" * 37)
    elif kind == "dir":
        os.makedirs(path)
        with open(os.path.join(path, "keep.txt"), "w") as f:
            f.write("precious")
    else:
        n = 1 if (ext in MULTI) else (2 if kind == "valid" else 5)
        t = _traj(0, n)
        if k == 0:
            t.save(path)
        else:   # a numbered companion: produced by saving under a scratch name and moving
            tmp = os.path.join(os.path.dirname(path), "tmp_pre." + ext)
            trajgen.rm(tmp)
            t.save(tmp)
            os.replace(tmp, path)


def _load(path, ext):
    import mdtraj as md
    from mdtraj.formats import amberrst  # noqa
    if ext in TOPEXT:
        return md.load(path)
    if ext == "rst7" or (path.rsplit(".", 1)[-1].isdigit() and ".rst7." in path):
        return md.load_restrt(path, top=trajgen.topology())
    if ext == "ncrst" or (path.rsplit(".", 1)[-1].isdigit() and ".ncrst." in path):
        return md.load_ncrestrt(path, top=trajgen.topology())
    return md.load(path, top=trajgen.topology())


def _lowwrite(f, ext, first):
    le = LOWLEVEL.get(ext, ext)
    s = dict(natoms=1, cell=True, time=True)
    if le == "h5":
        f.topology = trajgen.topology()
    if le in MULTI:
        xyz, L, A, t, na = c19._arrays(le, [first], s)
        f.write(xyz, time=t, cell_lengths=L, cell_angles=A)
    else:
        c19._write(f, le, [first], s)


def _do(step, d, ext, idx):
    """perform one operation; returns 'ok' / 'raised:<type>'"""
    import mdtraj as md
    path = _fname(d, ext, 0)
    op = step["op"]
    first = idx * 10
    try:
        if op == "save":
            _traj(first, step["n"]).save(path, force_overwrite=step["fo"])
        elif op == "open_w":
            f = md.open(path, "w", force_overwrite=step["fo"])
            try:
                _lowwrite(f, ext, first)
            finally:
                f.close()
        elif op == "open_only":
            f = md.open(path, "w", force_overwrite=step["fo"])
            f.close()
        elif op == "bad_save":
            base = LOWLEVEL.get(ext, ext)
            t = _traj(first, 1)
            if base == "mdcrd" and idx % 2:
                t.unitcell_angles = np.array([[80.0, 95.0, 100.0]], dtype=np.float32)          # mdcrd holds rectangular boxes only
                t.save(path, force_overwrite=False)
            elif base == "pdb" and idx % 2:
                t.save(path, force_overwrite=False, bfactors=np.zeros((3, 2)))                  # wrongly shaped b-factors
            else:
                t.save(path, force_overwrite=False, no_such_option=3)                           # an option no saver takes
        elif op == "load":
            _load(path, ext)
        elif op == "load_frame":
            kw = {} if ext in TOPEXT else {"top": trajgen.topology()}
            md.load_frame(path, 0, **kw)
        elif op == "iterload":
            kw = {} if ext in TOPEXT else {"top": trajgen.topology()}
            for k, _ in enumerate(md.iterload(path, chunk=1, **kw)):
                if k > 8:
                    break
        elif op == "open_r":
            kw = {"n_atoms": trajgen.NA} if LOWLEVEL.get(ext, ext) == "mdcrd" else {}
            with md.open(path, **kw) as f:
                _ = f.positions if LOWLEVEL.get(ext, ext) == "pdb" else f.read()
        elif op == "load_topology":
            md.load_topology(path)
        return "ok"
    except Exception as e:  # noqa
        return "raised:%s:%s" % (type(e).__name__, str(e)[:120])


_dir = None
_fresh = {}


def _fresh_size(ext, n, multi_k, how, idx):
    """byte size of a fresh save/open_w of the same data into an empty directory"""
    key = (ext, n, multi_k, how, idx)
    if key not in _fresh:
        d = os.path.join(_dir, "fresh-%d" % os.getpid())
        shutil.rmtree(d, ignore_errors=True)
        os.makedirs(d)
        _do(dict(op=how, n=n, fo=True), d, ext, idx)
        p = _fname(d, ext, multi_k, n)
        _fresh[key] = _size(p) if os.path.lexists(p) else -1
        shutil.rmtree(d, ignore_errors=True)
    return _fresh[key]


def _replay(task):
    ext, tr, tag = task
    d = os.path.join(_dir, "%d-%s" % (os.getpid(), tag))
    shutil.rmtree(d, ignore_errors=True)
    os.makedirs(d)
    try:
        return _replay_in(ext, tr, d)
    finally:
        shutil.rmtree(d, ignore_errors=True)


def _replay_in(ext, tr, d):
    hist = tr["hist"]
    nf = len(tr["init"]) - 1
    KS = list(range(nf + 1))
    fname = lambda k: _fname(d, ext, k, nf)
    for k in KS:
        _put(fname(k), ext, _at(tr["init"], k), k)
    problems = []
    for i, step in enumerate(hist):
        last = i == len(hist) - 1
        before = {k: _hash(fname(k)) for k in KS}
        listing_before = sorted(os.listdir(d))
        got = _do(step, d, ext, i + 1)
        if not last:
            if step["op"] == "open_only" and step["ok"]:
                # the specification leaves open what an open-and-close leaves behind: this test applies only if
                # the branch it took (pre-state of the next step) is the one the format realises
                nxt = _at(tr["pre"], 0)
                now = _hash(fname(0))
                real = "absent" if now == "absent" else ("same" if now == before[0] else "new")
                want = "absent" if nxt[0] == "absent" else ("new" if (nxt[0] == "new" and nxt[2] // 100 == i + 1) else "same")
                if real != want:
                    return "not-applicable"
            continue
        after = {k: _hash(fname(k)) for k in KS}
        if step["ok"] and got != "ok":
            problems.append("operation failed though nothing stood in its way: %s" % got)
        if not step["ok"] and got == "ok":
            problems.append("no error although the target exists and force_overwrite=False" if step["op"] != "bad_save" else "an invalid save request was accepted")
        for k in KS:
            pre, post = _at(tr["pre"], k), _at(tr["post"], k)
            path = fname(k)
            if post[0] == "maybe":
                continue     # an absent target of a refused multi-file save: created or not, the property does not say
            if step["op"] == "open_only" and step["ok"] and k == 0:
                continue     # any of the three outcomes the specification allows
            if post == pre:
                if after[k] != before[k]:
                    problems.append("file %s changed (%s) though the specification leaves it alone"
                                    % (os.path.basename(path), "existing file clobbered" if pre[0] != "absent" else "created"))
            elif post[0] == "new":
                nfr = post[2] % 100
                if step["op"] == "open_only" or nfr == 0:
                    continue      # nothing was written; only refusal/purity is specified for this operation
                try:
                    t = _load(path, ext)
                    ids = trajgen.frame_ids(t.xyz)
                except Exception as e:  # noqa
                    ids = "unloadable:%s" % type(e).__name__
                first = (i + 1) * 10
                exp = list(range(first, first + nfr)) if k == 0 else [first + k - 1]
                if ids != exp:
                    problems.append("overwritten file %s does not hold exactly the new frames: %s expected %s" % (os.path.basename(path), ids, exp))
                else:
                    fs = _fresh_size(ext, step["n"], k, step["op"], i + 1)
                    if fs >= 0 and _size(path) != fs:
                        problems.append("overwritten file %s keeps a remnant of the old content: size %d, fresh %d" % (os.path.basename(path), _size(path), fs))
        extra = [x for x in sorted(os.listdir(d)) if x not in listing_before and x not in
                 [os.path.basename(fname(k)) for k in KS]]
        if extra and step["op"] not in ("save", "open_w", "open_only", "bad_save"):
            problems.append("read operation created files: %s" % extra)
    if not problems:
        return None
    return dict(problems=problems)


def _supported(ext):
    """md.open(path,'w') is not offered for every extension that Trajectory.save accepts"""
    import mdtraj as md
    d = os.path.join(_dir, "probe-" + ext)
    shutil.rmtree(d, ignore_errors=True)
    os.makedirs(d)
    ok = True
    try:
        f = md.open(_fname(d, ext, 0), "w")
        try:
            f.close()
        except Exception:
            pass
    except Exception:
        ok = False
    shutil.rmtree(d, ignore_errors=True)
    return ok


def _probe(ext):
    return _supported(ext)


def run(ctx):
    global _dir
    _dir = os.path.join(ctx.scratch, "fs")
    os.makedirs(_dir, exist_ok=True)
    c19._dir = _dir
    D = 2
    tests = {}
    for multi in (False, True):
        kinds = '"valid", "longer", "junk"' if not multi else '"valid", "junk"'
        tests[multi] = []
        for nf in ((2,) if not multi else (2, 10)):
            r = ctx.tlc("FileGuard", "FG_%s_%d.cfg" % (multi, nf), workers=8, cfg_text=CFG % dict(kinds=kinds, D=D if nf == 2 else 1, multi="TRUE" if multi else "FALSE", nf=nf))
            tests[multi] += r.tr
    # dtr "files" are directories: a pre-existing directory of another origin is the dir kind
    rdir = ctx.tlc("FileGuard", "FG_dir.cfg", workers=8, cfg_text=CFG % dict(kinds='"valid", "dir"', D=D, multi="FALSE", nf=2))
    openable = dict(zip(SAVE_EXTS, [v if st == "ok" else False for st, v in pool.run_tasks(_probe, SAVE_EXTS, workers=4, batch=1)]))
    tasks = []
    skipped = {}
    for ext in SAVE_EXTS:
        src = rdir.tr if ext == "dtr" else tests[ext in MULTI]
        for i, tr in enumerate(src):
            ops = [s["op"] for s in tr["hist"]]
            if not openable[ext] and any(o in ("open_w", "open_only", "open_r") for o in ops):
                skipped[ext] = "md.open not offered for ." + ext
                continue
            if "load_topology" in ops and ext not in TOPEXT:
                continue
            if ext in MULTI and any(o in ("iterload", "load_frame", "open_r") for o in ops):
                continue      # restart files: load only
            lst = tr["hist"][-1]
            if lst["op"] == "open_only" and lst["ok"] and tr["post"]["0"][0] != "new":
                continue      # the three outcome branches of a final open-and-close replay identically: keep one
            tasks.append((ext, tr, "%s%d" % (ext.replace(".", ""), i % 32)))
    if ctx.replay:
        rp = json.load(open(ctx.replay))
        t = rp["first"]["detail"]["task"]
        tasks = [(t[0], t[1], "replay")]
    elif not ctx.thorough and len(tasks) > 16000:
        from ..core import stratified_sample
        tasks = stratified_sample(tasks, lambda t: (t[0], tuple((s["op"], s["fo"], s["ok"]) for s in t[1]["hist"])), 16000, ctx.rng)
    res = pool.run_tasks(_replay, tasks, workers=16, timeout=90, batch=16)
    nfail = 0
    nna = 0
    for t, (st, val) in zip(tasks, res):
        if st == "ok" and val is None:
            continue
        if st == "ok" and val == "not-applicable":
            nna += 1
            continue
        nfail += 1
        if st != "ok":
            val = dict(problems=["%s: %s" % (st, str(val)[:300])])
        pr = val["problems"][0]
        hs = " ; ".join("%s(n=%d,fo=%s)" % (s["op"], s["n"], s["fo"]) for s in t[1]["hist"])
        ctx.discrepancy(None, "%s init=%s [%s]: %s" % (t[0], json.dumps(t[1]["init"]), hs, "; ".join(val["problems"])[:400]),
                        dict(task=[t[0], t[1]], observed=val), cls="%s %s: %s" % (t[0], t[1]["hist"][-1]["op"], pr.split(":")[0][:90]))
    samples = [dict(ext=t[0], test=t[1]) for t in tasks[:: max(1, len(tasks) // 3)][:3]]
    cov = dict(traces_validated_against_impl=len(tasks), replays_failing=nfail, branch_not_applicable=nna, extensions=SAVE_EXTS, skipped=skipped,
               depth=D, samples=samples,
               explanation="every transition of FileGuard.tla (pre-existing content of the path and its numbered companions x "
                           "save/open-for-write/open-only/read entry points x force_overwrite x 1 or 2 frames x histories of 2 operations) replayed in a "
                           "temporary directory per extension; sha256 of every path before/after, new content verified by loading and by byte length of a fresh save")
    return ctx.finish(cov, "model_checking", ["byte-identity of untouched files by sha256; full replacement judged by loading back exactly the new frames and equal byte length to a fresh write"])
