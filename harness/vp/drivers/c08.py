"""C08 — per-frame results depend only on that frame, not on neighbours or threads.
spec: specs/FrameLoop.tla (every schedule and interleaving of a per-frame loop with thread-private scratch).
Binding: replay of the schedules reachable through the OpenMP environment: each analysis evaluated whole / frame by
frame / permuted in subprocesses under a matrix of OMP_NUM_THREADS x OMP_DYNAMIC x OMP_SCHEDULE x repeated runs."""
import concurrent.futures as cf
import hashlib
import json
import os
import subprocess
import sys

import numpy as np

FL_CFG = "SPECIFICATION Spec\nCONSTANTS T = %(T)d\n F = %(F)d\n ResetPerFrame = %(reset)s\n StaticOnly = %(static)s\nINVARIANT ScheduleFree\nPROPERTY WriteOnce\nCHECK_DEADLOCK FALSE\n"
HERE = os.path.dirname(os.path.dirname(os.path.dirname(os.path.abspath(__file__))))


def _ulps(a, b):
    """max distance in units in the last place between two float arrays (0 for identical, inf if shapes differ)"""
    if a.shape != b.shape:
        return float("inf")
    if a.dtype.kind != "f":
        return 0.0 if np.array_equal(a, b) else float("inf")
    a32 = a.astype(np.float32); b32 = b.astype(np.float32)
    if np.array_equal(a32, b32):
        return 0.0
    sp = np.spacing(np.maximum(np.abs(a32), np.abs(b32)).astype(np.float32))
    return float(np.nanmax(np.abs(a32.astype(np.float64) - b32) / np.maximum(sp, 1e-45)))


def run(ctx):
    for T, F, static in ((3, 4, "FALSE"), (2, 5, "TRUE"), (4, 3, "FALSE")):
        ctx.tlc("FrameLoop", "FL_%d_%d_%s.cfg" % (T, F, static), workers=8, cfg_text=FL_CFG % dict(T=T, F=F, reset="TRUE", static=static))
    g = ctx.tlc("FrameLoop", "FL_guard.cfg", workers=8, must_pass=False, cfg_text=FL_CFG % dict(T=2, F=3, reset="FALSE", static="TRUE"))
    if "ScheduleFree is violated" not in (g.violation or g.out):
        ctx.machinery_failure("vacuity guard: FrameLoop without per-frame reset should violate ScheduleFree")
    threads = [1, 2, 3, 5, 8, 16, 12] if ctx.thorough else [1, 2, 5, 16, 12]
    envs = []
    for T in threads:
        for dyn in ("false", "true"):
            for sched in (("static", "dynamic,1") if ctx.thorough else ("static",)):
                for rep in (0, 1) if (ctx.thorough or T in (1, 5)) else (0,):
                    envs.append(dict(OMP_NUM_THREADS=str(T), OMP_DYNAMIC=dyn, OMP_SCHEDULE=sched, REP=str(rep)))
    # the same analyses after a prelude of calls of the same functions on another system with other parameters (larger sphere meshes,
    # other cutoffs, other index lists): a per-frame result may not depend on what the process computed before
    for T in (1, 5):
        envs.append(dict(OMP_NUM_THREADS=str(T), OMP_DYNAMIC="false", OMP_SCHEDULE="static", REP="0", HISTORY="1"))
    outs = []

    def go(i_env):
        i, env = i_env
        out = os.path.join(ctx.scratch, "pf-%d.npz" % i)
        e = dict(os.environ); e.update(env); e["PYTHONPATH"] = HERE
        p = subprocess.run([sys.executable, "-m", "vp.runners.perframe", out], env=e, cwd=HERE, capture_output=True, text=True, timeout=900)
        if p.returncode != 0 or not os.path.exists(out):
            return env, None, p.stderr[-500:]
        return env, dict(np.load(out)), ""
    with cf.ThreadPoolExecutor(max_workers=8) as ex:
        outs = list(ex.map(go, enumerate(envs)))
    bad = [o for o in outs if o[1] is None]
    if bad:
        ctx.machinery_failure("per-frame runner failed under %s: %s" % (bad[0][0], bad[0][2]))
    ref_env, ref, _ = outs[0]
    names = sorted(set(k.split("|")[0] for k in ref if not k.startswith("@meta:")))
    if int(ref["@meta:shear_frames_found"][0]) < 9:
        ctx.machinery_failure("per-frame runner found only %d sheared cells with a bit-identical diagonal (9 needed)" % int(ref["@meta:shear_frames_found"][0]))
    stats = {}
    n_cmp = 0
    for name in names:
        if name + "|error" in ref:
            ctx.notes.append("%s not evaluated: %s" % (name, bytes(ref[name + "|error"]).decode(errors="replace")))
            continue
        # (1) every thread count / dynamic setting / schedule / repeated run: bit-for-bit the same, shape by shape
        for shape in ("whole", "alone", "perm"):
            h0 = hashlib.sha256(np.ascontiguousarray(ref[name + "|" + shape]).tobytes()).hexdigest()
            for env, r, _ in outs[1:]:
                n_cmp += 1
                key = name + "|" + shape
                if key not in r or hashlib.sha256(np.ascontiguousarray(r[key]).tobytes()).hexdigest() != h0:
                    u = _ulps(ref[key], r[key]) if key in r else float("inf")
                    ctx.discrepancy(None, "%s (%s call): result under %s differs bitwise from the result under %s (%.3g ulp)" % (name, shape, env, ref_env, u),
                                    dict(function=name, shape=shape, env=env, ref_env=ref_env, ulps=u), cls="%s: depends on %s" % (name, "the calls made earlier in the process" if env.get("HISTORY") else "the OpenMP environment"))
        # (2) a frame computed inside a trajectory, alone, or in a permuted trajectory: the same (4 ulp; bitwise reported)
        for env, r, _ in (outs[0], outs[len(outs) // 2]):
            for other in ("alone", "perm"):
                u = _ulps(r[name + "|whole"], r[name + "|" + other])
                if name.startswith("rmsd") and u > 0:
                    # an RMSD is sqrt((Ga + Gb - 2 lambda)/N): its rounding error is bounded on the SQUARE relative to (Ga+Gb)/N
                    # (~1 nm^2 here), not in ulps of the root; SIMD summation order varies with the frame's alignment in memory
                    a2 = r[name + "|whole"].astype(np.float64) ** 2; b2 = r[name + "|" + other].astype(np.float64) ** 2
                    u = 0.5 if np.max(np.abs(a2 - b2)) <= 1e-6 else u
                stats.setdefault(name, {})[other] = max(stats.get(name, {}).get(other, 0.0), u)
                n_cmp += 1
                if u > 4.0:
                    ctx.discrepancy(None, "%s: frame results in a %s call differ from the whole-trajectory call by %.3g ulp (threads=%s)" % (
                        name, "frame-by-frame" if other == "alone" else "permuted", u, env["OMP_NUM_THREADS"]),
                        dict(function=name, other=other, env=env, ulps=u), cls="%s: depends on the neighbouring frames" % name)
    cov = dict(traces_validated_against_impl=len(envs) * len(names) * 3, comparisons=n_cmp, environments=len(envs), functions=names,
               ulp_whole_vs_alone_vs_permuted=stats, samples=[envs[0], envs[-1]],
               explanation="FrameLoop.tla: every schedule/interleaving of a per-frame loop with thread-private scratch publishes kernel(frame) iff the scratch is reset per frame "
                           "(guard refutes the no-reset design). Replay: %d per-frame analyses on 9 frames of 2EQQ, each as a whole call, frame by frame and on permuted frames, in "
                           "subprocesses under OMP_NUM_THREADS x OMP_DYNAMIC x OMP_SCHEDULE x repeats; bit-identity across environments, <=4 ulp across shapes" % len(names))
    return ctx.finish(cov, "model_checking", ["the schedules exercised are those libgomp produces for the environment matrix; races inside one frame's kernel are not modelled (kernels share no writable state within a frame)"])
