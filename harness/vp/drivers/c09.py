"""C09 — observables are invariant under rigid motion and lattice translation.
spec: specs/Symmetry.tla (action property [][Obs' = Obs]).  Binding: every emitted action (cube rotation, translation, per-atom
lattice shift) replayed on the lattice configuration and, generalised, on a real protein frame (also generic float64 rotations
and translations up to hundreds of nm), comparing every md observable before and after."""
import json

import numpy as np

from .. import pool

G = 0.125
CFG = """SPECIFICATION Spec
CONSTANTS Periodic = %(per)s
 NAt = 4
 MaxSteps = %(ms)d
PROPERTY Invariant
ACTION_CONSTRAINT Emit
CHECK_DEADLOCK FALSE
"""


def _rotmat(r):
    m = np.zeros((3, 3))
    for i in range(3):
        m[i, r[i] - 1] = r[3 + i]
    return m


def _randrot(rs):
    q = rs.randn(4); q /= np.linalg.norm(q)
    w, x, y, z = q
    return np.array([[1 - 2 * (y * y + z * z), 2 * (x * y - z * w), 2 * (x * z + y * w)], [2 * (x * y + z * w), 1 - 2 * (x * x + z * z), 2 * (y * z - x * w)],
                     [2 * (x * z - y * w), 2 * (y * z + x * w), 1 - 2 * (x * x + y * y)]])


def _ulp(m):
    return float(np.spacing(np.float32(max(m, 1e-3))))


def _lattice_case(task):
    """the 4-atom lattice configuration itself"""
    import mdtraj as md
    rec, seed = task
    st = rec["step"]
    P = np.array(rec["start"], dtype=float)
    cell = np.array(rec["cell"], dtype=float)
    periodic = st["op"] == "shift_atom" or abs(cell - np.eye(3)).max() > 0
    if st["op"] == "rotate":
        Q = P @ _rotmat(st["r"]).T
    elif st["op"] == "translate":
        Q = P + np.array(st["v"], dtype=float)
    else:
        Q = P.copy(); Q[st["a"] - 1] += np.array(st["v"], dtype=float) @ cell
    top = md.Topology(); ch = top.add_chain()
    for i in range(4):
        top.add_atom("C", md.element.carbon, top.add_residue("X", ch))

    def traj(X):
        t = md.Trajectory((X * G).astype(np.float32)[None], top)
        if periodic:
            t.unitcell_vectors = (cell * G).astype(np.float32)[None]
        return t
    a, b = traj(P), traj(Q)
    pairs = [(i, j) for i in range(4) for j in range(i + 1, 4)]
    trip = [(i, j, k) for i in range(4) for j in range(4) for k in range(4) if len({i, j, k}) == 3 and i < k]
    probs = []
    mag = max(np.abs(P).max(), np.abs(Q).max()) * G
    tol = 8 * _ulp(mag) + 1e-6
    if np.abs(md.compute_distances(a, pairs, periodic=periodic) - md.compute_distances(b, pairs, periodic=periodic)).max() > tol:
        probs.append("compute_distances changed")
    d = np.abs(md.compute_angles(a, trip, periodic=periodic) - md.compute_angles(b, trip, periodic=periodic)).max()
    if d > 400 * tol:
        probs.append("compute_angles changed by %.2g" % d)
    da, db = md.compute_dihedrals(a, [[0, 1, 2, 3]], periodic=periodic)[0, 0], md.compute_dihedrals(b, [[0, 1, 2, 3]], periodic=periodic)[0, 0]
    dd = abs(da - db); dd = min(dd, 2 * np.pi - dd)
    if rec["tordef"] and dd > 800 * tol and abs(abs(da) - np.pi) > 1e-3:
        probs.append("compute_dihedrals changed by %.2g" % dd)
    na = [sorted(x.tolist()) for x in md.compute_neighbors(a, 3.5 * G, [0], periodic=periodic)]
    nb = [sorted(x.tolist()) for x in md.compute_neighbors(b, 3.5 * G, [0], periodic=periodic)]
    if na != nb:
        probs.append("compute_neighbors changed")
    la = [sorted(int(v) for v in x) for x in md.compute_neighborlist(a, 3.5 * G, periodic=periodic)]
    lb = [sorted(int(v) for v in x) for x in md.compute_neighborlist(b, 3.5 * G, periodic=periodic)]
    if la != lb:
        probs.append("compute_neighborlist changed")
    want = [[j for j in range(4) if rec["nbr"][i][j]] for i in range(4)]
    if la != want:
        probs.append("compute_neighborlist of the start configuration is %s, the specification's neighbour relation is %s" % (la, want))
    if na != [[j for j in want[0]]]:
        probs.append("compute_neighbors of atom 0 in the start configuration is %s, the specification's neighbour relation gives %s" % (na, want[0]))
    if not periodic:
        if abs(md.compute_rg(a)[0] - md.compute_rg(b)[0]) > 20 * tol:
            probs.append("compute_rg changed")
        if np.abs(np.sort(np.linalg.eigvalsh(md.compute_gyration_tensor(a)[0])) - np.sort(np.linalg.eigvalsh(md.compute_gyration_tensor(b)[0]))).max() > 100 * tol:
            probs.append("gyration tensor eigenvalues changed")
    return probs or None


_prot = {}


def _protein():
    import mdtraj as md
    if "t" not in _prot:
        t = md.load("/repo/tests/data/2EQQ.pdb")
        _prot["t"] = t[0]
        _prot["ref"] = t[7]
    return _prot["t"], _prot["ref"]


def _observe(t, ref, periodic, discrete=True, sasa=False):
    import mdtraj as md
    ca = [a.index for a in t.topology.atoms if a.name == "CA"]
    pairs = [(ca[i], ca[j]) for i in range(0, len(ca), 3) for j in range(i + 1, len(ca), 4)]
    o = {}
    one = t[-1:]          # the frame under test on its own, for the observables that pool frames (hydrogen-bond frequency)
    o["distances"] = md.compute_distances(t, pairs, periodic=periodic)[-1]
    o["angles"] = md.compute_angles(t, [(ca[i], ca[i + 1], ca[i + 2]) for i in range(len(ca) - 2)], periodic=periodic)[-1]
    o["phi"] = md.compute_phi(t, periodic=periodic)[1][-1]
    o["psi"] = md.compute_psi(t, periodic=periodic)[1][-1]
    o["chi1"] = md.compute_chi1(t, periodic=periodic)[1][-1]
    o["contacts"] = md.compute_contacts(t, [[0, 9], [2, 14], [5, 20]], scheme="closest-heavy", periodic=periodic)[0][-1]
    if not periodic:
        o["rmsd"] = md.rmsd(md.Trajectory(t.xyz.copy(), t.topology), ref, 0) ** 2
        o["rg"] = md.compute_rg(t)
        o["gyration_eig"] = np.sort(np.linalg.eigvalsh(md.compute_gyration_tensor(t)[0]))
        o["asphericity"] = md.asphericity(t)
        o["drid"] = md.compute_drid(t, atom_indices=np.array(ca))[0]
    if discrete:
        o["baker_hubbard"] = sorted(tuple(int(x) for x in r) for r in md.baker_hubbard(one, periodic=periodic))
        if not periodic:
            ks = md.kabsch_sander(t)[0].tocoo()
            o["kabsch_sander"] = sorted((int(r), int(c)) for r, c in zip(ks.row, ks.col))
            o["dssp"] = "".join(md.compute_dssp(t, simplified=False)[0])
        o["neighbors"] = sorted(md.compute_neighbors(t, 0.45, np.array(ca[:3]), periodic=periodic)[-1].tolist())
        nl = md.compute_neighborlist(t, 0.45, frame=t.n_frames - 1, periodic=periodic)
        o["neighborlist"] = [sorted(int(v) for v in nl[i]) for i in ca]
    if sasa:
        sub = t.atom_slice(list(range(120)))
        o["sasa_total"] = np.array([md.shrake_rupley(sub, n_sphere_points=2000).sum()])
    return o


def _protein_case(task):
    import mdtraj as md
    kind, param, seed = task
    rs = np.random.RandomState(seed)
    t, ref = _protein()
    X = t.xyz[0].astype(np.float64); Rf = ref.xyz[0].astype(np.float64)
    periodic = kind == "shift_atom"
    sasa = kind in ("rotate", "translate") and seed % 7 == 0
    exact = False
    if kind == "rotate":
        M = _rotmat(param); Y = X @ M.T; Rn = Rf @ M.T; exact = True; mag = np.abs(X).max()
    elif kind == "rotate_generic":
        M = _randrot(rs); Y = X @ M.T; Rn = Rf @ M.T; mag = np.abs(X).max()
    elif kind == "translate":
        v = np.array(param, dtype=float); Y = X + v; Rn = Rf + v; mag = np.abs(Y).max()
    elif kind == "rigid_far":
        M = _randrot(rs); v = np.array(param, dtype=float); Y = X @ M.T + v; Rn = Rf @ M.T + v; mag = np.abs(Y).max()
    else:   # one or several atoms moved by lattice vectors of the cell; the whole system translated as well
        cell = np.array(param["cell"], dtype=float) * 0.5
        Y = X.copy()
        for a in rs.choice(len(X), size=param["n"], replace=False):
            Y[a] += rs.randint(-2, 3, size=3) @ cell
        Y = Y + rs.randint(-1, 2, size=3) @ cell + (rs.rand(3) if param["n"] > 3 else 0)
        Rn = Rf; mag = np.abs(Y).max()
    a = md.Trajectory(X.astype(np.float32)[None], t.topology)
    b = md.Trajectory(Y.astype(np.float32)[None], t.topology)
    rb = md.Trajectory(Rn.astype(np.float32)[None], t.topology)
    if periodic:
        cv = (np.array(param["cell"], dtype=float) * 0.5).astype(np.float32)[None]
        # the frame under test is the LAST of two: the first one has the same coordinates in a cell that shares a_x, b_x and c_x with it
        # but is taller and more tilted (constant-area style): the invariance is a per-frame statement whatever precedes the frame
        c0 = np.array(param["cell"], dtype=float) * 0.5
        c0[1, 1] *= 1.25; c0[2, 1] += 0.3 * c0[1, 1]; c0[2, 2] *= 1.4
        a = md.Trajectory(np.stack([a.xyz[0], a.xyz[0]]), t.topology); b = md.Trajectory(np.stack([b.xyz[0], b.xyz[0]]), t.topology)
        cv2 = np.stack([c0.astype(np.float32), cv[0]])
        a.unitcell_vectors = cv2; b.unitcell_vectors = cv2
    discrete = exact or periodic or (kind == "translate" and mag < 12)
    oa = _observe(a, ref, periodic, discrete, sasa)
    ob = _observe(b, rb, periodic, discrete, sasa)
    u = _ulp(mag)
    tols = dict(distances=8 * u + 1e-6, angles=300 * u + 3e-5, phi=600 * u + 1e-4, psi=600 * u + 1e-4, chi1=600 * u + 1e-4, contacts=8 * u + 1e-6, rmsd=200 * u + 2e-6, rg=20 * u + 1e-6,
                gyration_eig=200 * u + 1e-5, asphericity=400 * u + 1e-5, drid=None, sasa_total=None)
    probs = []
    for k in oa:
        va, vb = oa[k], ob[k]
        if isinstance(va, (list, str)):
            if va != vb:
                probs.append("%s changed under %s" % (k, kind))
            continue
        va = np.asarray(va, dtype=np.float64); vb = np.asarray(vb, dtype=np.float64)
        if k in ("phi", "psi", "chi1"):
            d = np.abs(va - vb); d = np.minimum(d, 2 * np.pi - d)
            bad = d.max() > tols[k]
        elif k == "drid":
            bad = np.abs(va - vb).max() > 2e-3 * (1 + np.abs(va).max()) * (1 + 1e4 * u)
        elif k == "sasa_total":
            bad = abs(va[0] - vb[0]) > (0.02 * va[0] if kind.startswith("rotate") or kind == "rigid_far" else 2e-3 * va[0])
        else:
            bad = np.abs(va - vb).max() > tols[k]
        if bad:
            probs.append("%s changed under %s (max difference %.3g)" % (k, kind, float(np.abs(va - vb).max())))
    return probs or None


def run(ctx):
    nonper = ctx.tlc("Symmetry", "Symmetry_np.cfg", workers=16, cfg_text=CFG % dict(per="FALSE", ms=2)).tr
    per = ctx.tlc("Symmetry", "Symmetry_p.cfg", workers=16, timeout=3000, cfg_text=CFG % dict(per="TRUE", ms=2 if ctx.thorough else 1)).tr
    recs = nonper + per
    if ctx.replay:
        d = json.load(open(ctx.replay))["first"]["detail"]
        recs = [d["rec"]] if "rec" in d else []
    ltasks = [(r, ctx.seed + i) for i, r in enumerate(recs)]
    nfail = 0
    for tk, (st, val) in zip(ltasks, pool.run_tasks(_lattice_case, ltasks, workers=16, timeout=120, batch=32)):
        if st == "ok" and val is None:
            continue
        nfail += 1
        msg = "; ".join(val) if st == "ok" else "%s: %s" % (st, str(val)[:200])
        ctx.discrepancy(None, "lattice configuration %s, action %s: %s" % (tk[0]["start"], tk[0]["step"], msg), dict(rec=tk[0]), cls="lattice: " + msg.split(" by ")[0][:70])
    # ---- the same actions on a real protein frame, plus their float generalisations ---------------------------------------
    rots = sorted(set(tuple(r["step"]["r"]) for r in nonper if r["step"]["op"] == "rotate"))
    trans = sorted(set(tuple(r["step"]["v"]) for r in nonper if r["step"]["op"] == "translate"))
    cells = [json.loads(c) for c in sorted(set(json.dumps(r["cell"]) for r in per))]
    ptasks = [("rotate", list(r), ctx.seed * 3 + i) for i, r in enumerate(rots)]
    ptasks += [("translate", [x * 1.0 for x in v], ctx.seed + 100 + i) for i, v in enumerate(trans)]
    ptasks += [("translate", [x * 10.0 for x in v], ctx.seed + 200 + i) for i, v in enumerate(trans)]                      # up to 400 nm
    ptasks += [("rotate_generic", None, ctx.seed + 300 + i) for i in range(40 if ctx.thorough else 12)]
    ptasks += [("rigid_far", [150.0, -80.0, 40.0], ctx.seed + 400 + i) for i in range(6)]
    ptasks += [("shift_atom", dict(cell=c, n=n), ctx.seed + 500 + 10 * i + n) for i, c in enumerate(cells) for n in (1, 2, 5, 40)]
    for tk, (st, val) in zip(ptasks, pool.run_tasks(_protein_case, ptasks, workers=16, timeout=600, batch=1)):
        if st == "ok" and val is None:
            continue
        nfail += 1
        msg = "; ".join(val) if st == "ok" else "%s: %s" % (st, str(val)[:200])
        ctx.discrepancy(None, "2EQQ frame 0, %s %s: %s" % (tk[0], tk[1], msg[:400]), dict(task=list(tk)), cls="protein: " + (val[0].split(" (max")[0] if st == "ok" else st)[:80])
    cov = dict(traces_validated_against_impl=len(ltasks) + len(ptasks), lattice_actions=len(ltasks), protein_transformations=len(ptasks), replays_failing=nfail,
               samples=[recs[0]["step"] if recs else None, list(ptasks[0][:2]), list(ptasks[-1][:2])],
               explanation="TLC checks [][Obs' = Obs] for every cube rotation, translation and per-atom lattice shift on 4-atom lattice configurations (pair distances, angle and dihedral fingerprints, "
                           "neighbour sets, N^2 Rg^2, scatter-tensor invariants; plain and minimum-image); every emitted action is replayed on the lattice configuration, and the same kinds of motion -- all 24 cube "
                           "rotations (exact in float), generic rotations, translations up to 400 nm, rigid motions far from the origin, lattice shifts of 1..40 atoms in orthorhombic and triclinic cells -- on a "
                           "protein frame comparing distances, angles, phi/psi/chi1, contacts, RMSD to a co-moved reference, Rg, gyration eigenvalues, asphericity, DRID, baker_hubbard, kabsch_sander, DSSP, "
                           "neighbours and SASA")
    return ctx.finish(cov, "model_checking", ["tolerances scale with the float32 spacing at the largest coordinate magnitude; discrete observables (H-bonds, DSSP, neighbour sets) are compared exactly under cube "
                                              "rotations, lattice shifts and translations below 12 nm only; SASA under rotation within 2% (quadrature), under translation within 0.2%"])
