"""C05 — periodic distances and displacements are true minimum-image values.
spec: specs/MinImage.tla (+ IntVec.tla).  Binding: every emitted (cell, r) case replayed as a frame of a trajectory with
per-frame varying cells, atoms placed many cells from the origin with extra lattice shifts."""
import json

import numpy as np

from .. import pool

G = 0.25    # nm per lattice unit (exact in float32)
CFG = """SPECIFICATION Spec
CONSTANTS MaxL = %(MaxL)d
 MaxS = %(MaxS)d
 R = %(R)d
 UseCatalogue = %(cat)s
INVARIANT LatticeCongruent
INVARIANT NeverBelow
INVARIANT ExactOrtho
INVARIANT ExactInRange
ACTION_CONSTRAINT Emit
CHECK_DEADLOCK FALSE
"""


def _top(n):
    import mdtraj as md
    top = md.Topology()
    ch = top.add_chain()
    for i in range(n):
        top.add_atom("C", md.element.carbon, top.add_residue("X", ch))
    return top


def _near(val, cands, tol):
    return any(abs(val - c) <= tol * (1 + abs(c)) for c in cands)


def _batch(task):
    """one batch of cases -> list of (case index, problem)"""
    import mdtraj as md
    from mdtraj.geometry import distance as D
    recs, seed, heavy = task
    rs = np.random.RandomState(seed)
    n = len(recs)
    xyz = np.zeros((n, 3, 3), dtype=np.float64)
    box = np.zeros((n, 3, 3))
    plain = np.zeros((n, 3))
    for k, r in enumerate(recs):
        cell = np.array(r["cell"], dtype=float)
        box[k] = cell * G
        o = rs.randint(-3, 4, size=3) @ cell + rs.randint(-2, 3, size=3)   # origin anywhere, several cells away
        sh = rs.randint(-2, 3, size=3) @ cell                                # extra lattice shift of the second atom
        xyz[k, 0] = o * G
        xyz[k, 1] = (o + np.array(r["r"]) + sh) * G
        xyz[k, 2] = xyz[k, 0]
        plain[k] = np.array(r["r"]) + sh
    t = md.Trajectory(xyz.astype(np.float32), _top(3))
    t.unitcell_vectors = box.astype(np.float32)
    out = []
    d2set = [[v[0] * v[0] + v[1] * v[1] + v[2] * v[2] for v in r["vecs"]] for r in recs]

    def judge(k, d, dv, what):
        r = recs[k]
        d2 = (float(d) / G) ** 2
        if d2 < r["tmin"] - 1e-3 * (1 + r["tmin"]):
            return "%s: distance below the true minimum-image distance" % what
        if r["inrange"] and not _near(d2, [r["tmin"]], 1e-3):
            return "%s: not the minimum-image distance although it is below half the smallest cell width" % what
        if not _near(d2, d2set[k], 1e-3):
            return "%s: distance is not a value the kernel model admits" % what
        if dv is not None:
            v = np.asarray(dv, dtype=np.float64) / G
            coef = np.linalg.solve(np.array(r["cell"], dtype=float).T, v - plain[k])
            if np.abs(coef - np.round(coef)).max() > 2e-3:
                return "%s: displacement is not the plain difference plus a lattice vector" % what
            if abs(v @ v - d2) > 2e-3 * (1 + d2):
                return "%s: |displacement| differs from the reported distance" % what
            if not any(np.abs(v - np.array(c)).max() < 5e-3 * (1 + np.abs(c).max()) for c in r["vecs"]):
                # congruent but not a minimiser the model knows: only an error if it is longer than the minimum
                if not _near(v @ v, d2set[k], 1e-3):
                    return "%s: displacement is not a minimum image" % what
        return None
    pairs = [[0, 1]]
    for opt in ((True, False) if heavy else (True,)):
        sub = slice(None) if opt else slice(0, min(n, 400))
        tt = t[sub]
        d = md.compute_distances(tt, pairs, opt=opt)[:, 0]
        dv = md.compute_displacements(tt, pairs, opt=opt)[:, 0, :]
        for k in range(len(d)):
            p = judge(k, d[k], dv[k], "compute_distances/displacements(opt=%s)" % opt)
            if p:
                out.append((k, p))
    # core entry point, pair-list variants, periodic=False, no cell, time-pair variant
    dc = D.compute_distances_core(t.xyz, np.array(pairs), unitcell_vectors=t.unitcell_vectors, periodic=True, opt=True)[:, 0]
    for k in range(n):
        p = judge(k, dc[k], None, "compute_distances_core")
        if p:
            out.append((k, p))
    # the same pair embedded in a longer pair list over a larger system (filler atoms far away), at a varying position, with
    # int64 / int32 / list index types: the result must not depend on where a pair sits in the list or how many atoms there are
    nfill = 5 + seed % 4
    big = np.zeros((n, 3 + nfill, 3), dtype=np.float32)
    slot = [(seed // 3) % (nfill + 1), nfill + 1 + (seed % 2)]          # where atoms 0 and 1 of the case go
    rest = [k for k in range(3 + nfill) if k not in slot]
    big[:, slot[0]] = t.xyz[:, 0]; big[:, slot[1]] = t.xyz[:, 1]
    big[:, rest] = t.xyz[:, :1] + rs.randint(3, 9, size=(1, len(rest), 3)).astype(np.float32) * 0.37
    tb = md.Trajectory(big, _top(3 + nfill)); tb.unitcell_vectors = box.astype(np.float32)
    plist = [[int(a), int(b)] for a, b in rs.randint(0, 3 + nfill, size=(41, 2))]
    pos = seed % 41
    plist[pos] = [slot[0], slot[1]]
    for arr in (np.array(plist, dtype=np.int64), np.array(plist, dtype=np.int32), plist):
        db = md.compute_distances(tb, arr)[:, pos]
        bad = np.where(np.abs(db - md.compute_distances(t, pairs)[:, 0]) > 2e-6 * (1 + db))[0]
        for k in bad[:3]:
            out.append((int(k), "the distance of a pair depends on its position in the pair list / the number of atoms"))
    multi = md.compute_distances(t, [[0, 1], [1, 0], [0, 1], [0, 2], [1, 1]])
    for k in range(n):
        if not (abs(multi[k, 0] - multi[k, 1]) < 1e-6 and multi[k, 0] == multi[k, 2]):
            out.append((k, "pair list: d(i,j), d(j,i) and a repeated pair disagree"))
        if abs(multi[k, 3]) > 1e-6 or abs(multi[k, 4]) > 1e-6:
            out.append((k, "pair list: coincident atoms / i==j not at distance 0"))
    if md.compute_distances(t, np.zeros((0, 2), dtype=int)).shape != (n, 0):
        out.append((0, "empty pair list: wrong shape"))
    eu = np.linalg.norm(xyz[:, 1].astype(np.float32).astype(np.float64) - xyz[:, 0].astype(np.float32).astype(np.float64), axis=1)
    for periodic, tr in ((False, t), (True, md.Trajectory(t.xyz, t.topology))):
        for opt in (True, False):
            dn = md.compute_distances(tr, pairs, periodic=periodic, opt=opt)[:, 0]
            bad = np.where(np.abs(dn - eu) > 1e-5 * (1 + eu))[0]
            for k in bad[:3]:
                out.append((int(k), "plain Euclidean distance expected (%s)" % ("periodic=False" if not periodic else "no unit cell")))
    tp = np.array([[k, k] for k in range(n)])
    dt = md.compute_distances_t(t, pairs, tp, opt=True)[:, 0]
    d0 = md.compute_distances(t, pairs, opt=True)[:, 0]
    for k in np.where(np.abs(dt - d0) > 1e-6 * (1 + d0))[0][:3]:
        out.append((int(k), "compute_distances_t(t,t) differs from compute_distances"))
    # ---- time pairs across frames: chain the frame origins so that the displacement from atom 0 at frame k to atom 1 at frame k+1
    #      is congruent (modulo frame k's lattice, the cell compute_distances_t uses) to case k's own displacement; the time pairs
    #      (0,1),(1,2),... then have exactly the expectations of cases 0,1,..., each starting in the frame where the previous one ended
    m = min(n, 600)
    X2 = np.zeros((m, 2, 3), dtype=np.float64)
    o = rs.randint(-2, 3, size=3).astype(float)
    for k in range(m):
        cellk = np.array(recs[k]["cell"], dtype=float)
        X2[k, 0] = o
        if k + 1 < m:
            # atom 1 of frame k+1 must sit at o + r_k (+ a lattice vector of cell k)
            X2[k + 1, 1] = o + np.array(recs[k]["r"]) + rs.randint(-2, 3, size=3) @ cellk
            o = X2[k + 1, 1] + rs.randint(-3, 4, size=3)              # frame k+1's own first atom: anywhere (lattice offset irrelevant)
    X2[0, 1] = X2[0, 0] + 1.0
    for fam in ("ortho", "any"):
        sel = [k for k in range(m - 1) if fam == "any" or not (recs[k]["cell"][1][0] or recs[k]["cell"][2][0] or recs[k]["cell"][2][1])]
        if fam == "ortho" and not all(not (r["cell"][1][0] or r["cell"][2][0] or r["cell"][2][1]) for r in recs[:m]):
            continue        # the orthorhombic kernel is only taken when every frame is orthorhombic
        if not sel:
            continue
        tt = md.Trajectory((X2 * G).astype(np.float32), _top(2)); tt.unitcell_vectors = box[:m].astype(np.float32)
        tpairs = np.array([[k, k + 1] for k in sel])
        for opt in (True, False):
            try:
                dtt = md.compute_distances_t(tt, [[0, 1]], tpairs, opt=opt)[:, 0]
            except Exception as e:  # noqa
                out.append((0, "compute_distances_t raised %s" % type(e).__name__)); break
            for kk, k in enumerate(sel):
                p = judge(k, dtt[kk], None, "compute_distances_t(chained time pairs, opt=%s)" % opt)
                if p:
                    out.append((k, p)); break
        break
    if heavy:
        for k in range(0, n, max(1, n // 25)):
            i, j, dd = md.find_closest_contact(t, [0], [1], frame=k)
            p = judge(k, dd, None, "find_closest_contact") if np.allclose(np.array(recs[k]["cell"]) - np.diag(np.diag(recs[k]["cell"])), 0) else None
            if p:
                out.append((k, p))
    return out


def run(ctx):
    plans = [(3, 1, 3, False), (0, 0, 6, True)] if not ctx.thorough else [(4, 2, 5, False), (0, 0, 9, True)]
    recs = []
    for MaxL, MaxS, R, cat in plans:
        r = ctx.tlc("MinImage", "MinImage_%d_%d_%d_%s.cfg" % (MaxL, MaxS, R, cat), workers=16, timeout=3000,
                    cfg_text=CFG % dict(MaxL=max(MaxL, 2), MaxS=MaxS, R=R, cat="TRUE" if cat else "FALSE"))
        recs += r.tr
    if ctx.replay:
        rp = json.load(open(ctx.replay))
        recs = [rp["first"]["detail"]["case"]]
    ctx.rng.shuffle(recs)
    B = 2000
    # mdtraj picks the orthorhombic kernel only when EVERY frame is orthorhombic: keep the two families in separate trajectories
    # (each still with per-frame varying cells), plus mixed ones
    ortho = [c for c in recs if not (c["cell"][1][0] or c["cell"][2][0] or c["cell"][2][1])]
    tric = [c for c in recs if c not in ortho] if len(recs) < 5000 else [c for c in recs if (c["cell"][1][0] or c["cell"][2][0] or c["cell"][2][1])]
    # ... and the almost rectangular cells (tilt below 0.2 degrees) on their own: whatever tolerance decides "orthorhombic", a skewed
    # cell is skewed
    def _near(c):
        cl = c["cell"]
        off = max(abs(cl[1][0]), abs(cl[2][0]), abs(cl[2][1]))
        return 0 < off * 200 <= min(cl[0][0], cl[1][1], cl[2][2])
    near = [c for c in recs if _near(c)]
    tasks = []
    for fam in (ortho, near, tric, recs[:len(recs) // 4]):
        tasks += [(fam[i:i + B], ctx.seed * 7919 + i, (i // B) % 6 == 0) for i in range(0, len(fam), B)]
    res = pool.run_tasks(_batch, tasks, workers=16, timeout=600, batch=1)
    nfail = 0
    for tk, (st, val) in zip(tasks, res):
        if st != "ok":
            nfail += 1
            ctx.discrepancy(None, "batch failed: %s %s" % (st, str(val)[:300]), dict(case=tk[0][0]), cls="batch " + st)
            continue
        for k, p in val:
            nfail += 1
            c = tk[0][k]
            ctx.discrepancy(None, "cell=%s r=%s: %s" % (c["cell"], c["r"], p), dict(case=c, problem=p), cls=p[:100])
    nontriv = sum(1 for c in recs if max(abs(x) for x in c["r"]) > max(c["cell"][0][0], c["cell"][1][1], c["cell"][2][2]) // 2)
    cov = dict(traces_validated_against_impl=sum(len(tk[0]) for tk in tasks), orthorhombic_only_trajectories=len(ortho), almost_rectangular_cases=len(near), cases_beyond_half_a_cell=nontriv, triclinic_cases=sum(1 for c in recs if c["cell"][1][0] or c["cell"][2][0] or c["cell"][2][1]),
               in_range_cases=sum(1 for c in recs if c["inrange"]), replays_failing=nfail, samples=recs[:3], grid_nm=G,
               explanation="every (cell, r) case enumerated by TLC is a frame of a packed trajectory with per-frame varying cell; compute_distances, compute_displacements "
                           "(opt and numpy paths), compute_distances_core, compute_distances_t, pair-list variants, periodic=False / no cell and find_closest_contact are "
                           "compared with the specification: never below the lattice minimum, equal to it in range, displacement = plain difference + lattice vector")
    return ctx.finish(cov, "model_checking", ["cells are lower-triangular integer matrices times 0.25 nm (exact in float32); tolerance 1e-3 relative on squared lattice distances",
                                              "irrational cell shapes are represented by integer approximants (e.g. 7/4 for sqrt 3)"])
