"""C13 — solvent-accessible areas are correct, additive and selection-independent.
spec: specs/Sasa.tla, SasaMC.tla (structure on all small incidences), FrameLoop.tla (per-frame loop with thread-private
scratch), SasaTrace.tla (trace validation of real shrake_rupley runs against an independently computed point incidence)."""
import concurrent.futures as cf
import json
import os
import re

import numpy as np

from .. import pool, tlc

MC_CFG = "SPECIFICATION Spec\nCONSTANTS NA = 3\n NP = 3\nINVARIANT Additive\nINVARIANT SubsetIndependent\nINVARIANT MinusOne\nINVARIANT Isolated\nCHECK_DEADLOCK FALSE\n"
FL_CFG = "SPECIFICATION Spec\nCONSTANTS T = %(T)d\n F = %(F)d\n ResetPerFrame = %(reset)s\n StaticOnly = %(static)s\nINVARIANT ScheduleFree\nPROPERTY WriteOnce\nCHECK_DEADLOCK FALSE\n"
TRACE_CFG = "SPECIFICATION Spec\nCHECK_DEADLOCK FALSE\n"


def spiral(n):
    """the documented golden-section spiral, float64"""
    i = np.arange(n)
    off = 2.0 / n
    y = i * off - 1.0 + off / 2.0
    r = np.sqrt(1.0 - y * y)
    phi = i * (np.pi * (3.0 - np.sqrt(5.0)))
    return np.stack([np.cos(phi) * r, y, np.sin(phi) * r], axis=1)


def incidence(xyz, R, n):
    """buried / near bits per (atom, point) for one frame (float64)"""
    pts = spiral(n)
    na = len(xyz)
    buried = np.zeros((na, n), dtype=bool)
    near = np.zeros((na, n), dtype=bool)
    for i in range(na):
        P = xyz[i] + R[i] * pts                                    # (n,3)
        d = np.linalg.norm(P[:, None, :] - xyz[None, :, :], axis=2)   # (n, na)
        d[:, i] = np.inf
        buried[i] = (d < R[None, :]).any(axis=1)
        near[i] = (np.abs(d - R[None, :]) < 1e-5).any(axis=1)
    return buried, near


def _systems(rs, thorough):
    import mdtraj as md
    from mdtraj.core import element as E
    out = []
    t = md.load("/repo/tests/data/2EQQ.pdb")
    sel = [a.index for a in t.topology.atoms if a.residue.index < 5]
    out.append(("2EQQ[0:5]", t.atom_slice(sel)[:4]))
    t = md.load("/repo/tests/data/1vii.pdb")
    sel = [a.index for a in t.topology.atoms if 3 <= a.residue.index < 8]
    base = t.atom_slice(sel)
    x = np.concatenate([base.xyz + rs.normal(0, s, size=base.xyz.shape).astype(np.float32) for s in (0, 0.02, 0.05)])
    out.append(("1vii[3:8]+noise", md.Trajectory(x, base.topology)))
    for k in range(4 if thorough else 2):       # random packings, several frames each
        n = int(rs.randint(8, 40))
        top = md.Topology(); ch = top.add_chain()
        els = [E.carbon, E.nitrogen, E.oxygen, E.hydrogen, E.sulfur]
        for i in range(n):
            if i % 4 == 0:
                res = top.add_residue("X%d" % (i // 4), ch)
            top.add_atom("A%d" % i, els[rs.randint(len(els))], res)
        frames = []
        for f in range(3):
            pts = []
            while len(pts) < n:
                c = rs.rand(3) * (0.25 * n ** (1 / 3.0) + 0.2)
                if all(np.linalg.norm(c - q) > 0.09 for q in pts):
                    pts.append(c)
            frames.append(pts)
        out.append(("packing%d" % k, md.Trajectory(np.array(frames, dtype=np.float32), top)))
    # analytic anchors: one atom; two atoms at a known separation
    top = md.Topology(); ch = top.add_chain(); res = top.add_residue("ONE", ch); top.add_atom("C", E.carbon, res)
    out.append(("isolated", md.Trajectory(np.zeros((2, 1, 3), dtype=np.float32), top)))
    return out


def _gen(task):
    import mdtraj as md
    from mdtraj.geometry.sasa import _ATOMIC_RADII
    seed, thorough = task
    rs = np.random.RandomState(seed)
    recs = []
    rid = 0
    notes = []
    for name, t in _systems(rs, thorough):
        for n_pts, probe, change in ((30, 0.14, None), (60, 0.10, {"C": 0.2}), (120, 0.14, None)):
            if t.n_atoms * n_pts > 7000 and n_pts > 60:
                continue
            radii = dict(_ATOMIC_RADII)
            if change:
                radii.update(change)
            R = np.array([radii[a.element.symbol] for a in t.topology.atoms], dtype=np.float32).astype(np.float64) + probe
            const = 4.0 * np.pi * R * R / n_pts
            sels = [None, sorted(rs.choice(t.n_atoms, size=max(1, t.n_atoms // 2), replace=False).tolist())]
            for sel in sels:
                kw = dict(probe_radius=probe, n_sphere_points=n_pts, change_radii=change)
                if sel is not None:
                    kw["atom_indices"] = sel
                A, amap = md.shrake_rupley(t, mode="atom", get_mapping=True, **kw)
                Rg, rmap = md.shrake_rupley(t, mode="residue", get_mapping=True, **kw)
                alone = np.concatenate([md.shrake_rupley(t[f], mode="atom", **kw) for f in range(t.n_frames)])
                mask = [1] * t.n_atoms if sel is None else [1 if i in sel else 0 for i in range(t.n_atoms)]
                for f in range(t.n_frames):
                    b, nr = incidence(t.xyz[f].astype(np.float64), R, n_pts)
                    cnt = [int(round(A[f, i] / const[i])) if mask[i] else (-1 if A[f, i] == -1 else -999) for i in range(t.n_atoms)]
                    frac = max(abs(A[f, i] / const[i] - round(A[f, i] / const[i])) for i in range(t.n_atoms) if mask[i])
                    tag = "%s n=%d probe=%.2f change=%s sel=%s frame=%d/%d" % (name, n_pts, probe, bool(change), sel is not None, f, t.n_frames)
                    recs.append(dict(id=rid, tag=tag, mode="atom", buried=b.astype(int).tolist(), near=nr.astype(int).tolist(), sel=mask, obs=cnt,
                                     map=[], atomvals=[], ngroups=0, tol=0, frac=float(frac),
                                     alone_equal=bool(np.array_equal(A[f], alone[f]))))
                    rid += 1
                    units = lambda v: int(round(float(v) * 1e6))
                    recs.append(dict(id=rid, tag=tag, mode="residue", buried=[], near=[], sel=mask, obs=[units(v) for v in Rg[f]],
                                     map=[int(m) + 1 for m in rmap], atomvals=[units(v) if mask[i] else 0 for i, v in enumerate(A[f])],
                                     ngroups=int(t.n_residues), tol=8 + 2 * t.n_atoms, frac=0.0, alone_equal=True))
                    rid += 1
    # two-sphere analytic anchor (value only; not part of the trace)
    from mdtraj.core import element as E
    top = md.Topology(); ch = top.add_chain(); res = top.add_residue("TWO", ch)
    top.add_atom("C1", E.carbon, res); top.add_atom("C2", E.carbon, res)
    two = []
    for d in (0.15, 0.25, 0.35, 0.5):
        t2 = md.Trajectory(np.array([[[0, 0, 0], [d, 0, 0]]], dtype=np.float32), top)
        a = md.shrake_rupley(t2, n_sphere_points=960)[0]
        R1 = _ATOMIC_RADII["C"] + 0.14
        h = max(0.0, R1 - d / 2.0)
        exact = 4 * np.pi * R1 * R1 - 2 * np.pi * R1 * h
        two.append((d, float(a[0]), float(a[1]), exact))
    return recs, two


def run(ctx):
    ctx.tlc("SasaMC", "SasaMC.cfg", workers=8, cfg_text=MC_CFG)
    for T, F, static in ((3, 4, "FALSE"), (2, 5, "TRUE")):
        ctx.tlc("FrameLoop", "FL_%d_%d_%s.cfg" % (T, F, static), workers=8, cfg_text=FL_CFG % dict(T=T, F=F, reset="TRUE", static=static))
    g = ctx.tlc("FrameLoop", "FL_guard.cfg", workers=8, must_pass=False, cfg_text=FL_CFG % dict(T=2, F=3, reset="FALSE", static="TRUE"))
    if "ScheduleFree is violated" not in (g.violation or g.out):
        ctx.machinery_failure("vacuity guard: FrameLoop without per-frame reset should violate ScheduleFree")
    if ctx.replay:
        recs = [json.load(open(ctx.replay))["first"]["detail"]["rec"]]
        two = []
    else:
        (st, val), = pool.run_tasks(_gen, [(ctx.seed + 11, ctx.thorough)], workers=1, timeout=1800, batch=1, env={"OMP_NUM_THREADS": "1"})
        if st != "ok":
            ctx.machinery_failure("trace generation failed: %s %s" % (st, str(val)[:500]))
        recs, two = val
    byid = {r["id"]: r for r in recs}
    parts = 8
    files = []
    for p in range(parts):
        chunk = recs[p::parts]
        if chunk:
            fn = os.path.join(ctx.scratch, "sasa-%d.json" % p)
            json.dump({"recs": [{k: r[k] for k in ("id", "mode", "buried", "near", "sel", "obs", "map", "atomvals", "ngroups", "tol")} for r in chunk]}, open(fn, "w"))
            files.append(fn)

    def _val(i_fn):
        i, fn = i_fn
        return tlc.run("SasaTrace", "ST%d.cfg" % i, os.path.join(ctx.scratch, "tlc-st%d" % i), workers=1, cfg_text=TRACE_CFG, env={"TRACE_FILE": fn}, timeout=3000, heap="3g")
    with cf.ThreadPoolExecutor(max_workers=8) as ex:
        outs = list(ex.map(_val, enumerate(files)))
    acc, rej = set(), {}
    for r in outs:
        ctx.tlc_runs.append(dict(module="SasaTrace", states=r.distinct, transitions=r.generated, wall_s=round(r.wall, 1), ok=r.ok))
        if not r.ok:
            ctx.machinery_failure("SasaTrace failed: %s" % (r.violation or r.out)[-800:])
        ctx.states += r.distinct; ctx.transitions += r.generated
        for line in r.prints:
            m = re.match(r'<<"ACCEPT", (\d+)>>', line)
            if m:
                acc.add(int(m.group(1)))
            m = re.match(r'<<"REJECT", (\d+), (.*)', line, re.S)
            if m:
                rej[int(m.group(1))] = m.group(2)
    lost = [r["id"] for r in recs if r["id"] not in acc and r["id"] not in rej]
    if lost:
        import sys as _s
        _s.stderr.write("UNPARSED: %r\n" % [l[:200] for o in outs for l in o.prints if not l.startswith('<<"ACCEPT"')][:4])
        ctx.machinery_failure("trace validation lost %d of %d records (e.g. %s); prints per run: %s" % (len(lost), len(recs), lost[:5], [len(o.prints) for o in outs]))
    for rid, why in sorted(rej.items()):
        rec = byid[rid]
        first = rec["tag"].endswith("frame=0/%s" % rec["tag"].rsplit("/", 1)[1])
        ctx.discrepancy(None, "%s [%s mode]: logged areas are not what the point incidence gives: %s" % (rec["tag"], rec["mode"], why[:300]),
                        dict(rec={k: rec[k] for k in rec if k not in ("buried", "near")}, verdict=why[:1500]),
                        cls="%s mode: counts differ from the incidence (%s frame of its call)" % (rec["mode"], "first" if first else "later"))
    for r in recs:
        if r["mode"] == "atom" and r["frac"] > 2e-3 and r["id"] in acc:
            ctx.discrepancy(None, "%s: area is not an integer number of sphere points (fraction %.4f)" % (r["tag"], r["frac"]), dict(tag=r["tag"]), cls="area not a multiple of the point area")
        if r["mode"] == "atom" and not r["alone_equal"]:
            ctx.discrepancy(None, "%s: frame computed inside a trajectory differs from the same frame computed alone" % r["tag"], dict(tag=r["tag"]), cls="frame result depends on its neighbours in the call")
    for d, a0, a1, exact in two:
        if abs(a0 - exact) > 0.06 * exact or abs(a1 - exact) > 0.06 * exact:
            ctx.discrepancy(None, "two spheres at d=%.2f nm: areas %.4f/%.4f, analytic cap-removed area %.4f" % (d, a0, a1, exact), dict(d=d), cls="two-sphere analytic value")
    cov = dict(traces_validated_against_impl=len(recs), accepted=len(acc), rejected=len(rej), frames=len(recs) // 2, two_sphere_anchor=two,
               samples=[dict(tag=r["tag"], mode=r["mode"], obs=r["obs"][:12], sel=r["sel"][:12]) for r in recs[:2]],
               explanation="additivity / subset independence / -1 marking / isolated atom checked on all 3x3 incidences; the per-frame loop with thread-private scratch is "
                           "schedule-free iff the scratch is reset per frame (FrameLoop, guard shows the failing design); recorded shrake_rupley runs (protein fragments, noisy copies, "
                           "random packings, isolated atom; 30/60/120 points, two probes, changed radii, atom and residue mode, atom_indices subsets, multi-frame calls) validated: "
                           "count = accessible points of the float64 incidence (up to near-surface points), residue = sum of atom mode, -1 for unselected, frame alone = frame in company")
    return ctx.finish(cov, "model_checking", ["incidence computed independently in float64 on the documented golden-section spiral; points within 1e-5 nm of a surface excluded from exact comparison",
                                              "trace validation uses <= 120 sphere points and <= 80 atoms (data budget); two-sphere analytic value within 6% at 960 points"])
