"""C06 — RMSD is the optimal-superposition RMSD and superpose attains it.
spec: specs/Rmsd.tla (exact QCP quartic, algebraic invariants model-checked) + RmsdEval.tla (quartic of every proposed case).
Binding: md.rmsd / superpose / rmsf on the cases (replicated to all atom counts mod 4, rigidly moved, precentered, parallel,
permuted atom selections) certified against the largest root of the specification's polynomial."""
import concurrent.futures as cf
import json
import os
import re

import numpy as np

from .. import pool, tlc

G = 0.1
MC_CFG = """SPECIFICATION Spec
CONSTANTS N = %(N)d
 R = %(R)d
INVARIANT SelfRoot
INVARIANT Symmetric
INVARIANT RotInvariant
INVARIANT RotatedIsZero
INVARIANT PermInvariant
INVARIANT CauchySchwarz
INVARIANT Mirror
CHECK_DEADLOCK FALSE
"""
EVAL_CFG = "SPECIFICATION ESpec\nCONSTANTS N = 3\n R = 2\nCHECK_DEADLOCK FALSE\n"


def _centred(rs, n, R=2):
    while True:
        z = rs.randint(-R, R + 1, size=(n - 1, 3))
        last = -z.sum(0)
        if np.abs(last).max() <= R:
            X = np.vstack([z, last])
            if np.linalg.matrix_rank(X) >= 2:
                return X


CUBE = []
for perm in ((0, 1, 2), (0, 2, 1), (1, 0, 2), (1, 2, 0), (2, 0, 1), (2, 1, 0)):
    for sg in range(8):
        m = np.zeros((3, 3), dtype=int)
        for i in range(3):
            m[i, perm[i]] = -1 if (sg >> i) & 1 else 1
        if round(np.linalg.det(m)) == 1:
            CUBE.append(m)


def gen_cases(seed, n_cases):
    rs = np.random.RandomState(seed)
    out = []
    for i in range(n_cases):
        n = int(rs.choice([3, 4, 5]))
        X = _centred(rs, n)
        kind = ["random", "rotated", "mirror", "near", "planar", "self"][i % 6]
        if kind == "random":
            Y = _centred(rs, n)
        elif kind == "rotated":
            Y = X @ CUBE[rs.randint(len(CUBE))].T
        elif kind == "mirror":
            Y = -X
        elif kind == "self":
            Y = X.copy()
        elif kind == "planar":
            X = X.copy(); X[:, 2] = 0
            Y = _centred(rs, n); Y[:, 2] = 0
            if np.linalg.matrix_rank(X) < 2 or np.linalg.matrix_rank(Y) < 2:
                Y = X @ CUBE[3].T
        else:   # near-identical: move one point by one lattice step, another back to keep the centroid
            Y = X.copy()
            a, b = rs.choice(n, size=2, replace=False)
            d = np.zeros(3, dtype=int); d[rs.randint(3)] = 1
            Y[a] += d; Y[b] -= d
            if np.abs(Y).max() > 2:
                Y = X.copy()
        if np.linalg.matrix_rank(X) < 2 or np.linalg.matrix_rank(Y) < 2:      # the property speaks of >= 3 non-collinear atoms
            X = np.array([[1, 0, 0], [-1, 1, 0], [0, -1, 0]][:3]); Y = X @ CUBE[5].T; kind = "rotated"
        out.append(dict(id=i, kind=kind, x=X.tolist(), y=Y.tolist()))
    return out


def _rot(rs):
    q = rs.randn(4); q /= np.linalg.norm(q)
    w, x, y, z = q
    return np.array([[1 - 2 * (y * y + z * z), 2 * (x * y - z * w), 2 * (x * z + y * w)], [2 * (x * y + z * w), 1 - 2 * (x * x + z * z), 2 * (y * z - x * w)],
                     [2 * (x * z - y * w), 2 * (y * z + x * w), 1 - 2 * (x * x + y * y)]])


def _top(n):
    import mdtraj as md
    top = md.Topology(); ch = top.add_chain()
    for i in range(n):
        top.add_atom("C", md.element.carbon, top.add_residue("X", ch))
    return top


_QUIET = []


def _check(task):
    import mdtraj as md
    if not _QUIET:      # theobald_rmsd.cpp reports degenerate (planar) fits on the C stderr, thousands of times: drop them in the worker
        _QUIET.append(os.dup2(os.open(os.devnull, os.O_WRONLY), 2))
    case, q, seed = task
    rs = np.random.RandomState(seed)
    X = np.array(case["x"], dtype=float); Y = np.array(case["y"], dtype=float)
    n0 = len(X)
    planar = bool(q.get("planar"))
    roots = np.roots([1.0, 0.0, q["c2"], q["c1"], q["c0"]])
    lmax = max(r.real for r in roots if abs(r.imag) < 1e-6 * (1 + abs(r.real)))
    if not (q["U"] - 1 - 1e-6 <= lmax <= q["U"] + 1e-6):
        return ["MACHINERY: float root %.6f outside the specification's integer bracket [%d, %d]" % (lmax, q["U"] - 1, q["U"])]
    msd0 = max(0.0, (q["ga"] + q["gb"] - 2 * lmax) / n0)           # lattice units^2 (replication leaves it unchanged)
    scale = (q["ga"] + q["gb"]) / n0 + 1e-9
    probs = []
    devs = [(0.0, "")]
    for k in (1, 2, 3, 5, 7, 41):                                    # n0*k covers every remainder modulo the SIMD width 4; 41 -> ~200 atoms
        n = n0 * k
        big = k == 41 and case["id"] % 5 == 0
        tx = rs.uniform(-3, 3, size=3) * (30 if big else 1); ty = rs.uniform(-3, 3, size=3) * (30 if big else 1)
        Rm = _rot(rs)
        A = np.tile(X, (k, 1)) * G + tx
        B = (np.tile(Y, (k, 1)) * G) @ Rm.T + ty
        perm = rs.permutation(n)
        t = md.Trajectory(A.astype(np.float32)[None], _top(n)); ref = md.Trajectory(B.astype(np.float32)[None], _top(n))
        mag = max(np.abs(A).max(), np.abs(B).max())
        tol = (3e-5 * scale + 2e-6 * mag * np.sqrt(scale) / G) * G * G       # float32 rounding of coordinates of size mag
        exp = msd0 * G * G
        for par in (True, False):
            r = float(md.rmsd(md.Trajectory(t.xyz.copy(), t.topology), ref, 0, parallel=par)[0])
            devs.append((abs(r * r - exp) / np.sqrt(tol * scale * G * G), "rmsd n=%d" % n))
            if abs(r * r - exp) > tol:
                probs.append("rmsd(parallel=%s) = %.6f but the minimum over proper rotations is %.6f (n=%d, %s)" % (par, r, np.sqrt(exp), n, case["kind"]))
        # symmetric
        r2 = float(md.rmsd(md.Trajectory(ref.xyz.copy(), ref.topology), t, 0)[0])
        devs.append((abs(r2 * r2 - exp) / np.sqrt(tol * scale * G * G), "rmsd n=%d" % n))
        if abs(r2 * r2 - exp) > tol:
            probs.append("rmsd(ref, target) differs from the minimum (symmetry) (n=%d)" % n)
        # precentered shortcut
        tc = md.Trajectory(t.xyz.copy(), t.topology); rc = md.Trajectory(ref.xyz.copy(), ref.topology)
        tc.center_coordinates(); rc.center_coordinates()
        r3 = float(md.rmsd(tc, rc, 0, precentered=True)[0])
        devs.append((abs(r3 * r3 - exp) / np.sqrt(tol * scale * G * G), "rmsd n=%d" % n))
        if abs(r3 * r3 - exp) > tol:
            probs.append("rmsd(precentered=True) after center_coordinates differs from the minimum (n=%d)" % n)
        # ... and the shortcut is only as good as the centring: after superposing the centred copies onto an off-origin frame the
        # flag must either be refused or give the same number
        if k in (2, 5):
            anchor = md.Trajectory((B + 2.5).astype(np.float32)[None], ref.topology)      # (md.rmsd has centred ref in place by now)
            tc.superpose(anchor, 0); rc.superpose(anchor, 0)
            try:
                r5 = float(md.rmsd(tc, rc, 0, precentered=True)[0])
            except ValueError:
                r5 = None
            devs.append((0.0 if r5 is None else abs(r5 * r5 - exp) / np.sqrt(tol * scale * G * G), "precentered-after-superpose n=%d" % n))
            if r5 is not None and abs(r5 * r5 - exp) > tol:
                probs.append("rmsd(precentered=True) after center_coordinates and a later superpose differs from the minimum (n=%d)" % n)
        # separate atom selections for target and reference (any order): pair perm[i] of a shuffled target with i of the reference
        tsh = md.Trajectory(t.xyz[:, np.argsort(perm)].copy(), t.topology)          # atom perm[i] of tsh = atom i of t
        r4 = float(md.rmsd(tsh, ref, 0, atom_indices=perm, ref_atom_indices=np.arange(n))[0])
        devs.append((abs(r4 * r4 - exp) / np.sqrt(tol * scale * G * G), "rmsd n=%d" % n))
        if abs(r4 * r4 - exp) > tol:
            probs.append("rmsd with different atom_indices / ref_atom_indices orders differs from the minimum (n=%d)" % n)
        # the same pairing handed to superpose: atom perm[i] of the shuffled target goes onto atom i of the reference
        tsp = md.Trajectory(tsh.xyz.copy(), tsh.topology)
        tsp.superpose(ref, 0, atom_indices=perm, ref_atom_indices=np.arange(n))
        plain_p = float(((tsp.xyz[0, perm].astype(np.float64) - ref.xyz[0]) ** 2).sum(1).mean())
        devs.append((abs(plain_p - exp) / np.sqrt(tol * scale * G * G), "superpose(perm) n=%d" % n))
        if abs(plain_p - exp) > 4 * tol + 1e-9:
            probs.append("superpose with different atom_indices / ref_atom_indices orders: paired atoms not at the minimum (n=%d)" % n)
        # superpose attains the minimum by a rigid motion
        t2 = md.Trajectory(t.xyz.copy(), t.topology)
        t2.superpose(ref, 0)
        d0 = np.linalg.norm(A[:, None] - A[None], axis=-1); d1 = np.linalg.norm(t2.xyz[0].astype(np.float64)[:, None] - t2.xyz[0][None], axis=-1)
        if np.abs(d0 - d1).max() > 2e-5 * (1 + mag):
            probs.append("superpose is not a rigid motion (n=%d)" % n)
        plain = float(((t2.xyz[0].astype(np.float64) - ref.xyz[0]) ** 2).sum(1).mean())
        devs.append((abs(plain - exp) / np.sqrt(tol * scale * G * G), "superpose n=%d" % n))
        if abs(plain - exp) > 4 * tol + 1e-9:
            probs.append("after superpose the unfitted RMSD is %.6f, the minimum is %.6f (n=%d, %s)" % (np.sqrt(plain), np.sqrt(exp), n, case["kind"]))
        # rmsf: frames that are rigidly moved copies of ONE conformation coincide after optimal superposition on the reference,
        # so every atom's fluctuation about the mean position is zero
        if k in (1, 3):
            frames = np.stack([A] + [(np.tile(X, (k, 1)) * G) @ _rot(rs).T + rs.uniform(-2, 2, size=3) for _ in range(3)])
            try:
                f = md.rmsf(md.Trajectory(frames.astype(np.float32), _top(n)), ref, 0)
                devs.append((0.0 if planar or _top_gap(q) <= 2e-3 else float(np.max(f)) ** 2 / np.sqrt(tol * scale * G * G), "rmsf n=%d" % n))
                if float(np.max(f)) > 2e-3 * (1 + np.sqrt(scale) * G) and not planar and _top_gap(q) > 2e-3:      # (a double root has a family of optimal rotations)
                    probs.append("rmsf of rigidly moved copies of one conformation is %.5f, not 0 (n=%d)" % (float(np.max(f)), n))
            except Exception as e:  # noqa
                probs.append("rmsf raised %s" % type(e).__name__)
        if k == 2:
            # alignment on a subset with passengers: passengers move rigidly with the aligned atoms
            extra = rs.uniform(-1, 1, size=(3, 3))
            A2 = np.vstack([A, extra + tx]); B2 = np.vstack([B, rs.uniform(-1, 1, size=(3, 3)) + ty])
            t3 = md.Trajectory(A2.astype(np.float32)[None], _top(n + 3)); ref3 = md.Trajectory(B2.astype(np.float32)[None], _top(n + 3))
            t3.superpose(ref3, 0, atom_indices=np.arange(n), ref_atom_indices=np.arange(n))
            plain = float(((t3.xyz[0, :n].astype(np.float64) - ref3.xyz[0, :n]) ** 2).sum(1).mean())
            devs.append((abs(plain - exp) / np.sqrt(tol * scale * G * G), "superpose n=%d" % n))
            if abs(plain - exp) > 4 * tol + 1e-9:
                probs.append("superpose(atom_indices subset): alignment atoms not at the minimum")
            # the trajectory superposed on one of ITS OWN frames, with different atoms on the two sides: atoms 0..n-1 (conformation X) of every
            # frame onto atoms n..2n-1 (conformation Y) of frame 0
            both0 = np.vstack([A, B]); Rm2 = _rot(rs)
            both1 = both0 @ Rm2.T + rs.uniform(-2, 2, size=3)
            ts = md.Trajectory(np.stack([both0, both1]).astype(np.float32), _top(2 * n))
            target = ts.xyz[0, n:].astype(np.float64).copy()
            ts.superpose(ts, 0, atom_indices=np.arange(n), ref_atom_indices=np.arange(n, 2 * n))
            for fr in range(2):
                plain = float(((ts.xyz[fr, :n].astype(np.float64) - target) ** 2).sum(1).mean())
                devs.append((abs(plain - exp) / np.sqrt(tol * scale * G * G), "self-reference n=%d" % n))
                if abs(plain - exp) > 4 * tol + 1e-9:
                    probs.append("superpose on a frame of the same trajectory with ref_atom_indices != atom_indices: alignment atoms not at the minimum (frame %d)" % fr)
            dd0 = np.linalg.norm(A2[:, None] - A2[None], axis=-1); dd1 = np.linalg.norm(t3.xyz[0].astype(np.float64)[:, None] - t3.xyz[0][None], axis=-1)
            if np.abs(dd0 - dd1).max() > 2e-5 * (1 + mag):
                probs.append("superpose(atom_indices subset): passengers not moved rigidly")
    if probs:
        probs.append("MAXDEV=%.3g (%s)" % max(devs))
    return probs or None


def _top_gap(q):
    """relative gap between the two largest real roots of the specification's exact quartic"""
    roots = sorted((r.real for r in np.roots([1.0, 0.0, q["c2"], q["c1"], q["c0"]]) if abs(r.imag) < 1e-3 * (1 + abs(r.real))), reverse=True)
    return 1.0 if len(roots) < 2 else abs(roots[0] - roots[1]) / (1e-12 + abs(roots[0]))


def run(ctx):
    ctx.tlc("Rmsd", "Rmsd_N3.cfg", workers=16, timeout=3000, cfg_text=MC_CFG % dict(N=3, R=1))
    if ctx.thorough:
        ctx.tlc("Rmsd", "Rmsd_N3R2s.cfg", workers=16, timeout=3000, simulate=3, depth=3, seed=ctx.seed + 1, cfg_text=MC_CFG % dict(N=4, R=1))
    if ctx.replay:
        cases = [json.load(open(ctx.replay))["first"]["detail"]["case"]]
    else:
        cases = gen_cases(ctx.seed + 5, 3000 if ctx.thorough else 600)
    parts = 8
    files = []
    for p in range(parts):
        chunk = cases[p::parts]
        if chunk:
            fn = os.path.join(ctx.scratch, "rm-%d.json" % p)
            json.dump({"recs": [{k: c[k] for k in ("id", "x", "y")} for c in chunk]}, open(fn, "w"))
            files.append(fn)

    def _val(i_fn):
        i, fn = i_fn
        return tlc.run("RmsdEval", "RE%d.cfg" % i, os.path.join(ctx.scratch, "tlc-re%d" % i), workers=1, cfg_text=EVAL_CFG, env={"TRACE_FILE": fn}, timeout=3000, heap="2g")
    with cf.ThreadPoolExecutor(max_workers=8) as ex:
        outs = list(ex.map(_val, enumerate(files)))
    quart = {}
    for r in outs:
        ctx.tlc_runs.append(dict(module="RmsdEval", states=r.distinct, transitions=r.generated, wall_s=round(r.wall, 1), ok=r.ok))
        if not r.ok:
            ctx.machinery_failure("RmsdEval failed: %s" % (r.violation or r.out)[-800:])
        ctx.states += r.distinct; ctx.transitions += r.generated
        for line in r.prints:
            m = re.match(r'<<"Q", (\d+), (-?\d+), (-?\d+), (-?\d+), (\d+), (\d+), (\d+), (TRUE|FALSE), (TRUE|FALSE)>>', line)
            if m:
                quart[int(m.group(1))] = dict(c2=int(m.group(2)), c1=int(m.group(3)), c0=int(m.group(4)), ga=int(m.group(5)), gb=int(m.group(6)), U=int(m.group(7)),
                                              ok=m.group(8) == "TRUE", planar=m.group(9) == "TRUE")
    if len(quart) != len(cases):
        ctx.machinery_failure("RmsdEval returned %d of %d quartics" % (len(quart), len(cases)))
    if any(not q["ok"] for q in quart.values()):
        ctx.machinery_failure("RmsdEval: an algebraic invariant of the specification failed on a proposed case")
    tasks = [(c, quart[c["id"]], ctx.seed * 13 + c["id"]) for c in cases]
    res = pool.run_tasks(_check, tasks, workers=16, timeout=300, batch=8)
    nfail = 0
    for tk, (st, val) in zip(tasks, res):
        if st == "ok" and val is None:
            continue
        if st == "ok" and val[0].startswith("MACHINERY"):
            ctx.machinery_failure(val[0])
        nfail += 1
        msg = val[0] if st == "ok" else "%s: %s" % (st, str(val)[:200])
        # the open finding covers only the float32 loss of accuracy where the largest root of the quartic is (nearly) double -- coplanar
        # sets, mirror-symmetric pairs: the float32-evaluated coefficients carry ~50 eps of noise, a double root moves by the SQUARE ROOT
        # of that, so lambda is good to ~1e-3 relative instead of ~1e-6.  The class is decided from the specification's exact quartic
        # (planarity flag, or gap between its two largest roots below 2e-3); the deviation must stay below 10 sqrt(ordinary tolerance x (Ga+Gb)/N), the square-root law of a perturbed double root;
        # anything larger, or a non-rigid motion, is a violation like everywhere else
        key = None
        if st == "ok" and (tk[1]["planar"] or _top_gap(tk[1]) < 2e-3):
            maxdev = float(val[-1].split("=")[1].split()[0]) if val[-1].startswith("MAXDEV=") else 1e9
            if maxdev < 10.0 and not any("not a rigid motion" in v or "not moved rigidly" in v or "raised" in v for v in val):
                key = "rmsd:planar_alignment_set"
        if st == "ok" and val[-1].startswith("MAXDEV="):
            val = val[:-1]
        ctx.discrepancy(key, "X=%s Y=%s (%s): %s" % (tk[0]["x"], tk[0]["y"], tk[0]["kind"], "; ".join(val)[:400] if st == "ok" else msg), dict(case=tk[0], quartic=tk[1]),
                        cls=re.sub(r"[-0-9.]+", "#", msg)[:90])
    cov = dict(traces_validated_against_impl=len(cases) * 6, cases=len(cases), replays_failing=nfail, kinds=sorted(set(c["kind"] for c in cases)),
               samples=[dict(case=cases[i], quartic=quart[cases[i]["id"]]) for i in (0, 2)],
               explanation="algebraic consequences of the property (self, symmetry, cube-rotation and relabelling invariance, Cauchy-Schwarz bound, mirror-image relation) model-checked on all "
                           "centred 3-point conformation pairs in {-1,0,1}^3; for random / rotated / mirror / near-identical / planar / identical pairs of 3-5 points in {-2..2}^3 the exact quartic "
                           "is computed by TLC and md.rmsd (parallel, serial, swapped, precentered, permuted selections), superpose (rigidity, attained minimum, subset alignment with passengers) and rmsf "
                           "are certified against its largest root for atom counts n0*{1,2,3,5,7,41}, random rigid motions and offsets up to 90 nm")
    return ctx.finish(cov, "model_checking", ["largest root of the specification's exact integer quartic extracted in float64 (np.roots) and cross-checked against the spec's integer bracket",
                                              "float32 tolerance 3e-5 (Ga+Gb)/N plus 2e-6 |x|max sqrt((Ga+Gb)/N); non-lattice conformations reached only through rigid motions"])
