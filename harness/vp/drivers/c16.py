"""C16 — derived descriptors equal their defining formulas (the algebraic ones).
spec: specs/Descriptors.tla evaluated by DescEval.tla on random lattice placements of a model topology (code -> spec: the
driver proposes, TLC computes the exact expected integers); replay through compute_contacts / squareform, centre of mass and
geometry, radius of gyration, gyration tensor and the shape descriptors, RDF and density."""
import concurrent.futures as cf
import json
import os
import re

import numpy as np

from .. import pool, tlc

G = 0.1
EVAL_CFG = "SPECIFICATION Spec\nCHECK_DEADLOCK FALSE\n"
SCHEMES = ["ca", "closest", "closest-heavy", "sidechain", "sidechain-heavy"]
MODEL = [("A", "ALA", ["N", "CA", "C", "O", "CB", "HB1"]), ("A", "GLY", ["N", "CA", "C", "O", "HA2", "HA3"]), ("A", "SER", ["N", "CA", "C", "O", "CB", "OG", "HG"]),
         ("A", "LYS", ["N", "CA", "C", "O", "CB", "CG"]), ("A", "HOH", ["O", "H1", "H2"]), ("A", "VAL", ["N", "CA", "C", "O", "CB", "CG1"]),
         ("B", "ALA", ["N", "CA", "C", "O", "CB"]), ("B", "GLY", ["N", "CA", "C", "O", "HA2"]), ("B", "HOH", ["O", "H1", "H2"]),
         ("B", "THR", ["N", "CA", "C", "O", "CB", "OG1"]), ("B", "PHE", ["N", "CA", "C", "O", "CB"])]
MODEL_U = [("A", "ALA", ["N", "CA", "C", "O", "CB"])] * 4 + [("B", "ALA", ["N", "CA", "C", "O", "CB"])] * 2     # every residue the same size
MODELS = {"model": MODEL, "uniform": MODEL_U}
GIVENS = {"model": None, "uniform": [(1, 2), (1, 3), (2, 4), (3, 5), (4, 6), (1, 6)]}
MASS = {"C": 1201, "N": 1401, "O": 1600, "H": 101}
WEIGHT = {"C": 3, "N": 4, "O": 5, "H": 1}   # small integer weights for the weighted Rg (TLC integers are 32 bit)
MIXED = [(1, 3), (1, 5), (2, 4), (5, 9), (3, 7)]                 # 1-based; residues 5 and 9 are waters
GIVEN = [(1, 2), (1, 3), (2, 4), (3, 7), (6, 8), (4, 11), (2, 8), (10, 11)]
CELLS = [[[24, 0, 0], [0, 26, 0], [0, 0, 28]], [[24, 0, 0], [-8, 24, 0], [-6, -7, 22]],
         # twice as large: every minimum image between the residues of the model is unique (periodic dipole moment)
         [[48, 0, 0], [0, 52, 0], [0, 0, 56]], [[48, 0, 0], [-16, 48, 0], [-12, -14, 44]]]


def model_topology(which="model"):
    import mdtraj as md
    from mdtraj.core import element as E
    top = md.Topology()
    chains = {}
    for ch, rn, names in MODELS[which]:
        if ch not in chains:
            chains[ch] = top.add_chain()
        r = top.add_residue(rn, chains[ch])
        for nm in names:
            top.add_atom(nm, E.get_by_symbol(nm[0]), r)
    top.create_standard_bonds()
    return top


def table(which="model"):
    """the atom / residue table handed to the specification; checked against the real topology's attributes"""
    top = model_topology(which)
    atoms = []
    for a in top.atoms:
        atoms.append(dict(res=a.residue.index + 1, name=a.name, h=int(a.element.symbol == "H"), side=int(bool(a.is_sidechain)), m=MASS[a.element.symbol], w=WEIGHT[a.element.symbol]))
    residues = [dict(chain=r.chain.index + 1, gly=int(r.name == "GLY")) for r in top.residues]
    exp_side = {"CB", "HB1", "HA2", "HA3", "OG", "HG", "CG", "CG1", "OG1"}
    for a, row in zip(top.atoms, atoms):
        if bool(row["side"]) != (a.name in exp_side and a.residue.name != "HOH"):
            raise RuntimeError("model topology: unexpected is_sidechain for %s" % a)
        if abs(a.element.mass * 100 - row["m"]) > 0.6:
            raise RuntimeError("model topology: mass table off for %s" % a)
    bonds = sorted([min(a.index, b.index) + 1, max(a.index, b.index) + 1] for a, b in top.bonds)
    if len(bonds) < 20:
        raise RuntimeError("model topology: standard bonds were not created")
    return dict(atoms=atoms, residues=residues, bonds=bonds)


def gen_cases(seed, n, tab, which="model", first_id=0):
    rs = np.random.RandomState(seed)
    na = len(tab["atoms"])
    nres = len(tab["residues"])
    out = []
    for i in range(n):
        periodic = bool(i % 2)
        cell = CELLS[(i // 2) % 4]
        cm = np.array(cell)
        centres = rs.randint(2, 18, size=(nres, 3))
        pos = []
        used = set()
        for a in tab["atoms"]:
            while True:
                p = tuple(int(x) for x in centres[a["res"] - 1] + rs.randint(-2, 3, size=3))
                if p not in used:
                    used.add(p); pos.append(list(p)); break
        pos = np.array(pos)
        if periodic:
            pos = pos + rs.randint(-1, 2, size=(na, 3)) @ cm
        prs = np.random.RandomState(na).choice(na, size=(40, 2))            # one pair list per model topology (frames can be stacked)
        prs = [[int(a) + 1, int(b) + 1] for a, b in prs if a != b]
        if i % 3 == 0:
            sel = list(range(1, na + 1))
        else:
            sel = sorted(int(x) + 1 for x in rs.choice(na, size=rs.randint(4, 25), replace=False))
            if i % 3 == 2:
                rs.shuffle(sel)
        q = rs.randint(-2, 3, size=na); q[-1] -= q.sum()
        giv = GIVENS[which] or GIVEN
        out.append(dict(id=first_id + i, which=which, mixed=[list(p) for p in (MIXED if which == "model" else giv)], sel=[int(x) for x in sel], charges=[int(x) for x in q], pos=pos.tolist(), cell=cell, periodic=periodic, pairs=[list(p) for p in giv], rdfpairs=prs))
    return out


def _check(task):
    import mdtraj as md
    case, exp = task
    top = model_topology(case.get("which", "model"))
    P = np.array(case["pos"], dtype=float)
    t = md.Trajectory((P * G).astype(np.float32)[None], top)
    t.unitcell_vectors = (np.array(case["cell"]) * G).astype(np.float32)[None]
    per = case["periodic"]
    n = t.n_atoms
    probs = []
    tol2 = lambda e: 2e-3 * (1 + e)
    # ---- contacts: default pair list and explicit pairs, every scheme ----
    for mode, spec_lists, arg in (("all", exp["all"], "all"), ("given", exp["given"], np.array(case["pairs"]) - 1)):
        for si, scheme in enumerate(SCHEMES):
            want = [(r - 1, s - 1, d2) for r, s, d2 in spec_lists[si] if d2 >= 0]
            try:
                d, rp = md.compute_contacts(t, arg, scheme=scheme, periodic=per)
            except Exception as e:  # noqa
                probs.append("compute_contacts(%s, %s) raised %s" % (mode, scheme, type(e).__name__)); continue
            got_pairs = [tuple(int(x) for x in row) for row in rp]
            if got_pairs != [(r, s) for r, s, _ in want]:
                probs.append("compute_contacts(%s, %s): residue pair labels differ from the documented list (got %s expected %s)" % (mode, scheme, got_pairs, [(r, s) for r, s, _ in want])); continue
            for (r, s, d2), dd in zip(want, d[0]):
                if abs((dd / G) ** 2 - d2) > tol2(d2):
                    probs.append("compute_contacts(%s, %s): residues %d-%d report %.4f, the minimum over the designated atom pairs is %.4f" % (mode, scheme, r, s, dd, np.sqrt(d2) * G))
                    break
            if scheme == "closest-heavy" and len(got_pairs):
                sq = md.geometry.squareform(d, rp)
                for (r, s), dd in zip(got_pairs, d[0]):
                    if sq[0, r, s] != dd or sq[0, s, r] != dd:
                        probs.append("squareform places a contact distance in the wrong cell"); break
    # ---- a residue pair for which the scheme designates NO atom pair (water has no side chain; HOH has no CA): the call may refuse;
    #      if it answers, that column must not be a finite positive distance and every other column must still be its own minimum ----
    mixed = [tuple(p) for p in case["mixed"]]
    for si, scheme in enumerate(SCHEMES):
        if scheme in ("closest", "closest-heavy"):
            continue
        try:
            d, rp = md.compute_contacts(t, np.array(mixed) - 1, scheme=scheme, periodic=per)
        except Exception:
            continue
        got_pairs = [tuple(int(x) + 1 for x in row) for row in rp]
        for (r, s_), dd in zip(got_pairs, d[0]):
            hit = [x for x in exp["mixed"][si] if (x[0], x[1]) == (r, s_)]
            if not hit:
                probs.append("compute_contacts(%s) labels a pair (%d, %d) that was not requested" % (scheme, r, s_)); break
            d2 = hit[0][2]
            if d2 < 0:
                if np.isfinite(dd) and dd > 0:
                    probs.append("compute_contacts(%s): residue pair %d-%d has no designated atom pair, yet a distance %.4f is reported" % (scheme, r, s_, dd)); break
            elif abs((dd / G) ** 2 - d2) > tol2(d2):
                probs.append("compute_contacts(%s) with an empty pair in the list: residues %d-%d report %.4f, their minimum is %.4f" % (scheme, r, s_, dd, np.sqrt(d2) * G)); break
    # ---- documented soft minimum beta / log sum_i exp(beta / d_i) over ALL designated atom pairs of a residue pair ----
    beta = 20.0
    overflow = []
    for si, scheme in enumerate(SCHEMES):
        if scheme == "ca":
            continue
        rows = exp["allsm"][si]
        if any(len(row) == 0 for row in rows):
            continue
        try:
            d, rp = md.compute_contacts(t, np.array(case["pairs"]) - 1, scheme=scheme, periodic=per, soft_min=True, soft_min_beta=beta)
        except Exception as e:  # noqa
            probs.append("compute_contacts(%s, soft_min=True) raised %s" % (scheme, type(e).__name__)); continue
        for col, row in enumerate(rows):
            di = np.sqrt(np.array(row, dtype=np.float64)) * G
            want = beta / np.log(np.exp(beta / di - (beta / di).max()).sum()) if False else beta / (np.log(np.exp(beta / di - (beta / di).max()).sum()) + (beta / di).max())
            if d[0, col] == 0.0 and di.min() < beta / 88.7:
                overflow.append("compute_contacts(%s, soft_min=True): residue pair %s reports 0, its closest designated pair is %.4f nm apart (float32 overflow of exp(beta/d))" % (scheme, case["pairs"][col], di.min()))
                continue
            if abs(d[0, col] - want) > 2e-4 * (1 + want):
                probs.append("compute_contacts(%s, soft_min=True): residue pair %s reports %.5f, the documented soft minimum over its %d atom pairs is %.5f" % (scheme, case["pairs"][col], d[0, col], len(row), want))
                break
    # ---- centres, radius of gyration, gyration tensor and shape descriptors ----
    com = md.compute_center_of_mass(t)[0]
    if np.abs(com - np.array(exp["com"]) / exp["mass"] * G).max() > 3e-4:
        probs.append("compute_center_of_mass differs from sum(m x)/sum(m)")
    cog = md.compute_center_of_geometry(t)[0]
    if np.abs(cog - np.array(exp["cog"]) / n * G).max() > 2e-5 * (1 + np.abs(cog).max()):
        probs.append("compute_center_of_geometry differs from the mean position")
    rg = md.compute_rg(t)[0]
    if abs(rg ** 2 - exp["rg"] / n ** 2 * G * G) > 1e-4 * (1 + rg ** 2):
        probs.append("compute_rg differs from sqrt(mean |x - centre|^2)")
    # the same placement hundreds of nanometres from the origin (a large box, an unwrapped solute): Rg is translation invariant, and
    # float32 coordinates carry it to ~1e-5 nm (half an ulp at 250 nm is 7.6e-6 nm per coordinate)
    if not per:
        far = md.Trajectory((P * G + np.array([250.0, -180.0, 310.0])).astype(np.float32)[None], top)
        rg_far = md.compute_rg(far)[0]
        rg_exact = np.sqrt(exp["rg"] / n ** 2) * G
        if abs(rg_far - rg_exact) > 4e-5:
            probs.append("compute_rg of the placement translated far from the origin is %.6f, the definition gives %.6f" % (rg_far, rg_exact))
    w = np.array([MASS[a.element.symbol] for a in top.atoms], dtype=float)
    rgw = md.compute_rg(t, masses=np.array([WEIGHT[a.element.symbol] for a in top.atoms], dtype=float))[0]
    if abs(rgw ** 2 - exp["rgw"][0] / exp["rgw"][1] ** 2 * G * G) > 1e-4 * (1 + rgw ** 2):
        probs.append("compute_rg(masses) differs from the mass-weighted definition")
    T = np.array(exp["gyr"], dtype=float) / n ** 2 * G * G
    gt = md.compute_gyration_tensor(t)[0]
    if np.abs(gt - T).max() > 2e-4 * (1 + np.abs(T).max()):
        probs.append("compute_gyration_tensor differs from mean (x-c)(x-c)^T")
    ev = np.sort(np.linalg.eigvalsh(T))
    pm = np.asarray(md.principal_moments(t)[0], dtype=float)
    if np.abs(np.sort(pm) - ev).max() > 3e-4 * (1 + ev.max()) or list(pm) != sorted(pm):
        probs.append("principal_moments are not the ascending eigenvalues of the gyration tensor")
    asp, acy, rsa = md.asphericity(t)[0], md.acylindricity(t)[0], md.relative_shape_antisotropy(t)[0]
    if abs(asp - (ev[2] - 0.5 * (ev[0] + ev[1]))) > 5e-4 * (1 + ev.max()):
        probs.append("asphericity differs from l3 - (l1+l2)/2")
    if abs(acy - (ev[1] - ev[0])) > 5e-4 * (1 + ev.max()):
        probs.append("acylindricity differs from l2 - l1")
    if abs(rsa - (1.5 * (ev ** 2).sum() / ev.sum() ** 2 - 0.5)) > 2e-3:
        probs.append("relative_shape_antisotropy differs from 3/2 sum l^2/(sum l)^2 - 1/2")
    # ---- RDF: histogram counts with edges at half-integers of the lattice step; shell-volume normalisation ----
    prs = np.array(case["rdfpairs"]) - 1
    r, g = md.compute_rdf(t, prs, r_range=(0.5 * G, 10.5 * G), n_bins=10, periodic=per)
    edges = (np.arange(11) + 0.5) * G
    V = 4.0 / 3.0 * np.pi * (edges[1:] ** 3 - edges[:-1] ** 3)
    norm = len(prs) * (1.0 / (exp["vol"] * G ** 3)) * V
    cnt = g * norm
    if np.abs(cnt - np.array(exp["rdf"])).max() > 1e-3 * (1 + max(exp["rdf"])):
        probs.append("compute_rdf: histogram counts / shell normalisation differ (got %s expected %s)" % (np.round(cnt, 3).tolist(), exp["rdf"]))
    if np.abs(r - (np.arange(10) + 1.0) * G).max() > 1e-6:
        probs.append("compute_rdf: bin centres are not the middles of the bins")
    # ---- DRID: which partners (selection, bonded exclusion, order of atom_indices), then the three moments in doubles ----
    sel = np.array(case["sel"]) - 1
    try:
        dr = np.asarray(md.compute_drid(t, atom_indices=sel), dtype=np.float64)[0].reshape(len(sel), 3)
        for kk, row in enumerate(exp["drid"]):
            xr = 1.0 / (np.sqrt(np.array([d2 for _, d2 in row], dtype=np.float64)) * G)
            m = xr.mean(); want = np.array([m, np.sqrt(((xr - m) ** 2).mean()), np.cbrt(((xr - m) ** 3).mean())])
            if np.abs(dr[kk] - want).max() > 2e-4 * (1 + np.abs(want).max()):
                probs.append("compute_drid: moments of atom %d (entry %d of atom_indices) differ from those over its %d non-bonded selected partners" % (sel[kk], kk, len(row)))
                break
    except Exception as e:  # noqa
        probs.append("compute_drid raised %s" % type(e).__name__)
    # ---- dipole moment of a neutral charge set (no cell: plain positions) ----
    if not per:
        t0 = md.Trajectory(t.xyz, top)
        dm = md.dipole_moments(t0, np.array(case["charges"], dtype=float))[0]
        if np.abs(dm - np.array(exp["dipole"]) * G).max() > 2e-4 * (1 + np.abs(dm).max()):
            probs.append("dipole_moments differs from sum q x for a neutral system")
    # element masses taken by default, asked again after every other analysis has run on the same Trajectory / Topology objects
    for again in range(2):
        d_def = md.density(t)[0]
        if abs(d_def - exp["mass"] / 100.0 / (exp["vol"] * G ** 3) * 1.6605387823355087) > 3e-4 * d_def:
            probs.append("density (element masses%s) differs from mass / volume: %.5f" % (", second call" if again else "", d_def)); break
        com2 = md.compute_center_of_mass(t)[0]
        if np.abs(com2 - np.array(exp["com"]) / exp["mass"] * G).max() > 3e-4:
            probs.append("compute_center_of_mass (repeated call) differs from sum(m x)/sum(m)"); break
        if len(case["sel"]) < n:
            sub = "index " + " ".join(str(int(i)) for i in sorted(sel))
            cs = md.compute_center_of_mass(t, select=sub)[0]
            ms = np.array([top.atom(int(i)).element.mass for i in sorted(sel)], dtype=float)      # (the 0.01 dalton rounding of the table matters for 4 atoms)
            if np.abs(cs - (ms[:, None] * P[sorted(sel)]).sum(0) / ms.sum() * G).max() > 3e-4:
                probs.append("compute_center_of_mass(select=...) differs from the centre of mass of the selected atoms"); break
    if per and exp.get("dipole_p_ok"):
        # periodic cell, residues with net charges scattered over images: the documented minimum-image construction
        dmp = md.dipole_moments(t, np.array(case["charges"], dtype=float))[0]
        if np.abs(dmp - np.array(exp["dipole_p"]) * G).max() > 3e-4 * (1 + np.abs(dmp).max()):
            probs.append("dipole_moments (periodic) differs from sum q (mic(r_first - r_0) + mic(r - r_first)): got %s expected %s" % (np.round(dmp, 4).tolist(), (np.array(exp["dipole_p"]) * G).round(4).tolist()))
    # one mass vector object handed to several descriptors in turn (the caller's array: a descriptor may read it, nothing more)
    mw = w / 100.0
    xyz_before = t.xyz.copy()
    rg_mw = md.compute_rg(t, masses=mw)[0]
    cm = (mw[:, None] * P).sum(0) / mw.sum()
    if abs(rg_mw ** 2 - float((mw * ((P - cm) ** 2).sum(1)).sum() / mw.sum()) * G * G) > 1e-4 * (1 + rg_mw ** 2):
        probs.append("compute_rg(element masses) differs from the mass-weighted definition")
    dens = md.density(t, masses=mw)[0]
    if abs(dens - exp["mass"] / 100.0 / (exp["vol"] * G ** 3) * 1.6605387823355087) > 1e-4 * dens:
        probs.append("density differs from mass / volume (mass vector used for compute_rg before)")
    if not np.array_equal(mw, w / 100.0):
        probs.append("a descriptor modified the mass vector it was given")
    if not np.array_equal(t.xyz, xyz_before):
        probs.append("a descriptor modified the coordinates of the trajectory it was given")
    return (probs, overflow) if (probs or overflow) else None


def _check_rdf_frames(task):
    """several placements stacked into one multi-frame trajectory with a different cell volume per frame: the documented
    normalisation is n_pairs * sum_f (1 / V_f) * V_shell, the histogram counts add up"""
    import mdtraj as md
    group = task
    c0 = group[0][0]
    top = model_topology(c0.get("which", "model"))
    xyz = np.array([np.array(c["pos"], dtype=float) * G for c, _ in group]).astype(np.float32)
    t = md.Trajectory(xyz, top)
    # stretch the cells so that the volumes differ substantially from frame to frame (the placements stay where they are)
    cells = [np.array(c["cell"], dtype=float) * (1 + 0.5 * k) for k, (c, _) in enumerate(group)]
    t.unitcell_vectors = np.array(cells, dtype=np.float32) * G
    prs = np.array(c0["rdfpairs"]) - 1
    per = False            # plain distances: the counts of the single-frame evaluation (periodic=False cases only) stay valid
    r, g = md.compute_rdf(t, prs, r_range=(0.5 * G, 10.5 * G), n_bins=10, periodic=per)
    edges = (np.arange(11) + 0.5) * G
    V = 4.0 / 3.0 * np.pi * (edges[1:] ** 3 - edges[:-1] ** 3)
    vols = [abs(np.linalg.det(cm)) * G ** 3 for cm in cells]
    norm = len(prs) * sum(1.0 / v for v in vols) * V
    want = np.sum([e["rdf"] for _, e in group], axis=0)
    if np.abs(g * norm - want).max() > 2e-3 * (1 + want.max()):
        return "compute_rdf over %d frames with cell volumes %s: counts / normalisation differ (got %s expected %s)" % (len(group), np.round(vols, 2).tolist(), np.round(g * norm, 3).tolist(), want.tolist())
    return None


def run(ctx):
    (st, tab), = pool.run_tasks(lambda _: table(), [0], workers=1, batch=1)
    if st != "ok":
        ctx.machinery_failure("model topology table: %s" % str(tab)[:300])
    (st2, tabu), = pool.run_tasks(lambda _: table("uniform"), [0], workers=1, batch=1)
    if st2 != "ok":
        ctx.machinery_failure("uniform model topology table: %s" % str(tabu)[:300])
    tabs = {"model": tab, "uniform": tabu}
    n_main = 240 if ctx.thorough else 48
    cases = gen_cases(ctx.seed + 3, n_main, tab) + gen_cases(ctx.seed + 4, n_main // 3, tabu, "uniform", first_id=n_main)
    if ctx.replay:
        cases = [json.load(open(ctx.replay))["first"]["detail"]["case"]]
    files = []
    parts = 6
    k = 0
    for which in ("model", "uniform"):
        sub = [c for c in cases if c.get("which", "model") == which]
        for p in range(parts if which == "model" else 2):
            chunk = sub[p::(parts if which == "model" else 2)]
            if chunk:
                fn = os.path.join(ctx.scratch, "desc-%d.json" % k); k += 1
                json.dump({"top": tabs[which], "recs": chunk}, open(fn, "w"))
                files.append(fn)

    def _val(i_fn):
        i, fn = i_fn
        return tlc.run("DescEval", "DE%d.cfg" % i, os.path.join(ctx.scratch, "tlc-de%d" % i), workers=1, cfg_text=EVAL_CFG, env={"TRACE_FILE": fn}, timeout=3000, heap="2g")
    with cf.ThreadPoolExecutor(max_workers=8) as ex:
        outs = list(ex.map(_val, enumerate(files)))
    exp = {}
    for r in outs:
        ctx.tlc_runs.append(dict(module="DescEval", states=r.distinct, transitions=r.generated, wall_s=round(r.wall, 1), ok=r.ok))
        if not r.ok:
            ctx.machinery_failure("DescEval failed: %s" % (r.violation or r.out)[-800:])
        ctx.states += r.distinct; ctx.transitions += r.generated
        for line in r.prints:
            m = re.match(r'<<"D", (\d+), "(.*)">>$', line, re.S)
            if m:
                exp[int(m.group(1))] = json.loads(json.loads('"' + m.group(2) + '"'))
    if len(exp) != len(cases):
        ctx.machinery_failure("DescEval returned %d of %d evaluations" % (len(exp), len(cases)))
    if any(not e["ok"] for e in exp.values()):
        ctx.machinery_failure("DescEval: a bookkeeping invariant of the specification failed")
    tasks = [(c, exp[c["id"]]) for c in cases]
    nfail = 0
    # multi-frame RDF: non-periodic placements of one model stacked three at a time, each frame with its own cell volume
    np_cases = [tk for tk in tasks if not tk[0]["periodic"] and tk[0].get("which", "model") == "model"]
    groups = [np_cases[i:i + 3] for i in range(0, len(np_cases) - 2, 3)]
    if not ctx.replay:
        for gk, (st, val) in zip(groups, pool.run_tasks(_check_rdf_frames, groups, workers=8, timeout=300, batch=2)):
            if st == "ok" and val is None:
                continue
            nfail += 1
            ctx.discrepancy(None, val if st == "ok" else "%s: %s" % (st, str(val)[:200]), dict(case=gk[0][0], frames=[c["id"] for c, _ in gk]), cls="compute_rdf multi-frame normalisation")
    for tk, (st, val) in zip(tasks, pool.run_tasks(_check, tasks, workers=16, timeout=300, batch=4)):
        if st == "ok" and val is None:
            continue
        if st == "ok":
            val, ovf = val
            if ovf:
                ctx.discrepancy("contacts:soft_min_float32_overflow", "case %d: %s" % (tk[0]["id"], ovf[0]), dict(case=tk[0]), cls="soft_min overflow")
            if not val:
                continue
        nfail += 1
        msg = "; ".join(val) if st == "ok" else "%s: %s" % (st, str(val)[:200])
        ctx.discrepancy(None, "case %d (periodic=%s, cell %s): %s" % (tk[0]["id"], tk[0]["periodic"], tk[0]["cell"], msg[:500]), dict(case=tk[0]),
                        cls=(val[0].split(":")[0] if st == "ok" else st)[:80])
    cov = dict(traces_validated_against_impl=len(cases) * 16, periodic_dipole_cases=sum(1 for e in exp.values() if e.get("dipole_p_ok")), configurations=len(cases), replays_failing=nfail, samples=[dict(pos=cases[0]["pos"][:6], expected_contacts_all=exp[cases[0]["id"]]["all"][0])],
               explanation="random lattice placements (plain and scattered over periodic images, orthorhombic and triclinic cells) of an 11-residue, two-chain model topology (glycines, waters without CA, "
                           "hydrogens, unequal residue sizes); TLC evaluates Descriptors.tla exactly; replayed: compute_contacts for 'all' and explicit pairs in all five schemes (labels and minima), squareform, "
                           "centre of mass / geometry, Rg (plain and mass weighted), gyration tensor, principal moments, asphericity, acylindricity, relative shape anisotropy, RDF counts and normalisation, density, DRID (partner bookkeeping + moments), dipole moment of neutral charge sets")
    return ctx.finish(cov, "model_checking", ["not covered (no exact discrete form / 32-bit overflow): nematic order, Karplus J-couplings, soft-min contacts, inertia tensor; DRID moments are evaluated in doubles from the exact squared distances of the spec's partner sets",
                                              "element masses rounded to 0.01 dalton in the specification (centre of mass compared to 3e-4 nm)"])
