"""C01 — save then load reproduces the trajectory, in every writable format.
spec: specs/Formats.tla (format table + quantisation arithmetic, coherence checked by TLC).  Binding: every emitted case
(extension x atoms x frames x coordinate pattern x cell kind x time pattern x option) is saved by Trajectory.save, the bytes
are read by independent parsers written here (struct / text / scipy.io.netcdf_file / tables) and compared with the native
numbers the specification allows, then md.load and md.open().read() are compared with the file and the original."""
import gzip
import json
import os
import re
import shutil
import struct

import numpy as np

from .. import pool

CFG = """SPECIFICATION Spec
INVARIANT RoundTrip
INVARIANT NonEmpty
INVARIANT Monotone
INVARIANT FieldFits
INVARIANT UnitsInverse
ACTION_CONSTRAINT Emit
CHECK_DEADLOCK FALSE
"""
U = 1e-5   # nm per spec length unit


def _top(n):
    import mdtraj as md
    top = md.Topology()
    ch = top.add_chain()
    for i in range(n):
        if i == 5:
            ch = top.add_chain()
        top.add_atom("CA", md.element.carbon, top.add_residue("ALA", ch))
    return top


def _traj(case):
    import mdtraj as md
    xyz = (np.array(case["xyz"], dtype=np.float64) * U).astype(np.float32)
    kw = {}
    if case["timekind"] != "default":
        kw["time"] = np.array(case["times"], dtype=np.float64) * 1e-3
    history = (case["na"] * 7 + case["nf"] * 3 + len(case["ext"]) + len(case["cellkind"])) % 2 == 1
    if not history:
        t = md.Trajectory(xyz, _top(case["na"]), **kw)
        if case["cellkind"] != "none":
            c = np.array(case["cells"], dtype=np.float64)
            t.unitcell_lengths = (c[:, :3] * U).astype(np.float32)
            t.unitcell_angles = c[:, 3:].astype(np.float32)
        return t
    # the same trajectory reached through a history: built with other coordinates and another cell, looked at (box vectors, volumes,
    # a first save of another state is what an analysis script does), then edited IN PLACE to the intended state -- the arrays a
    # Trajectory hands out are its own, subscript assignment goes through no setter; what is saved is the state at the time of saving
    t = md.Trajectory(xyz * np.float32(0.5) + np.float32(0.25), _top(case["na"]), **kw)
    if case["cellkind"] != "none":
        c = np.array(case["cells"], dtype=np.float64)
        t.unitcell_lengths = (c[:, :3] * U * 1.25 + 0.5).astype(np.float32)
        t.unitcell_angles = np.full((len(c), 3), 90.0, dtype=np.float32)
        _ = t.unitcell_vectors, t.unitcell_volumes
        t.unitcell_lengths[...] = (c[:, :3] * U).astype(np.float32)
        t.unitcell_angles[...] = c[:, 3:].astype(np.float32)
    t.xyz[...] = xyz
    return t


# ---------------------------------------------------------------------------------------------------------------------
# independent readers: each returns dict(xyz=[nf][na][3] native floats, xyz_text=[...] strings or None, time=[...] or None,
#                                        cell=[(lengths native, angles deg)] or None)
def _open_text(path):
    return gzip.open(path, "rt") if path.endswith(".gz") else open(path)


def r_xyz(path, na):
    L = _open_text(path).read().split("\n")
    i = 0
    frames = []; texts = []
    while i < len(L) and L[i].strip():
        n = int(L[i]); rows = [L[i + 2 + j].split() for j in range(n)]
        frames.append([[float(v) for v in r[1:4]] for r in rows]); texts.append([r[1:4] for r in rows])
        i += n + 2
    return dict(xyz=frames, xyz_text=texts, time=None, cell=None)


def r_mdcrd(path, na, has_cell):
    L = open(path).read().split("\n")[1:]
    vals = []; texts = []
    for line in L:
        if has_cell and len(vals) and False:
            pass
        texts.append(line)
    # fixed 8-character fields, 10 per line; a frame is 3*na values then (optionally) one box line of three values
    frames = []; ftexts = []; cells = []
    i = 0
    per = 3 * na
    nlines = (per + 9) // 10
    while i < len(L) and L[i].strip():
        chunk = L[i:i + nlines]; i += nlines
        fields = []
        for line in chunk:
            fields += [line[j:j + 8] for j in range(0, len(line), 8)]
        if len(fields) != per:
            raise ValueError("mdcrd frame has %d fields, expected %d" % (len(fields), per))
        frames.append(np.array([float(f) for f in fields]).reshape(na, 3).tolist()); ftexts.append(np.array([f.strip() for f in fields]).reshape(na, 3).tolist())
        if has_cell:
            cells.append(([float(v) for v in L[i].split()], [90.0, 90.0, 90.0])); i += 1
    return dict(xyz=frames, xyz_text=ftexts, time=None, cell=cells if has_cell else None)


def r_lammpstrj(path, na):
    L = open(path).read().split("\n")
    i = 0
    frames = []; texts = []; cells = []
    while i < len(L) and L[i].startswith("ITEM: TIMESTEP"):
        n = int(L[i + 3])
        hdr = L[i + 4]
        b = [[float(v) for v in L[i + 5 + j].split()] for j in range(3)]
        if "xy xz yz" in hdr:
            xy, xz, yz = b[0][2], b[1][2], b[2][2]
            xlo = b[0][0] - min(0.0, xy, xz, xy + xz); xhi = b[0][1] - max(0.0, xy, xz, xy + xz)
            ylo = b[1][0] - min(0.0, yz); yhi = b[1][1] - max(0.0, yz)
            zlo, zhi = b[2][0], b[2][1]
        else:
            xy = xz = yz = 0.0
            xlo, xhi = b[0][:2]; ylo, yhi = b[1][:2]; zlo, zhi = b[2][:2]
        lx, ly, lz = xhi - xlo, yhi - ylo, zhi - zlo
        a = lx; bb = np.sqrt(ly * ly + xy * xy); c = np.sqrt(lz * lz + xz * xz + yz * yz)
        al = np.degrees(np.arccos((xy * xz + ly * yz) / (bb * c))); be = np.degrees(np.arccos(xz / c)); ga = np.degrees(np.arccos(xy / bb))
        cells.append(([a, bb, c], [al, be, ga]))
        cols = L[i + 8].split()[2:]
        ix = [[c for c in range(len(cols)) if cols[c] in (k, k + "u")][0] for k in ("x", "y", "z")]      # plain or unwrapped coordinates
        rows = sorted((L[i + 9 + j].split() for j in range(n)), key=lambda r: int(r[cols.index("id")]))
        # coordinates are written relative to the box origin (xlo, ylo, zlo)
        frames.append([[float(r[k]) for k in ix] for r in rows]); texts.append([[r[k] for k in ix] for r in rows])
        i += 9 + n
    return dict(xyz=frames, xyz_text=texts, time=None, cell=cells, origin=True)


def r_gro(path, na, prec):
    L = open(path).read().split("\n")
    i = 0
    frames = []; texts = []; cells = []; times = []
    w = prec + 5
    while i < len(L) and L[i].strip() != "" or (i < len(L) - 1 and L[i + 1].strip().isdigit()):
        m = re.search(r"t=\s*([-+0-9.eE]+)", L[i])
        times.append(float(m.group(1)) if m else None)
        n = int(L[i + 1])
        fr = []; tx = []
        for j in range(n):
            line = L[i + 2 + j]
            f = [line[20 + k * w:20 + (k + 1) * w] for k in range(3)]
            fr.append([float(v) for v in f]); tx.append([v.strip() for v in f])
        frames.append(fr); texts.append(tx)
        bx = [float(v) for v in L[i + 2 + n].split()]
        if len(bx) == 3:
            bx += [0.0] * 6
        v1 = np.array([bx[0], bx[3], bx[4]]); v2 = np.array([bx[5], bx[1], bx[6]]); v3 = np.array([bx[7], bx[8], bx[2]])
        ln = [np.linalg.norm(v) for v in (v1, v2, v3)]
        if min(ln) > 0:
            ang = [np.degrees(np.arccos(np.dot(p, q) / (np.linalg.norm(p) * np.linalg.norm(q)))) for p, q in ((v2, v3), (v1, v3), (v1, v2))]
            cells.append((ln, ang))
        else:
            cells.append(None)
        i += n + 3
    return dict(xyz=frames, xyz_text=texts, time=times, cell=cells)


def r_pdb(path, na):
    L = _open_text(path).read().split("\n")
    cell = None
    frames = []; texts = []; cur = []; curt = []
    nter = 0
    for line in L:
        if line.startswith("CRYST1"):
            cell = ([float(line[6:15]), float(line[15:24]), float(line[24:33])], [float(line[33:40]), float(line[40:47]), float(line[47:54])])
        elif line.startswith(("ATOM", "HETATM")):
            f = [line[30:38], line[38:46], line[46:54]]
            cur.append([float(v) for v in f]); curt.append([v.strip() for v in f])
        elif line.startswith("TER"):
            nter += 1
        elif line.startswith("ENDMDL"):
            frames.append(cur); texts.append(curt); cur = []; curt = []
    if cur:
        frames.append(cur); texts.append(curt)
    if len(frames) == 1 and len(frames[0]) > na and len(frames[0]) % na == 0:        # header=False: models are not delimited
        frames = [frames[0][i:i + na] for i in range(0, len(frames[0]), na)]; texts = [texts[0][i:i + na] for i in range(0, len(texts[0]), na)]
    return dict(xyz=frames, xyz_text=texts, time=None, cell=[cell] * len(frames) if cell else None, nter=nter, has_remark=any(x.startswith("REMARK") for x in L),
                has_model=any(x.startswith("MODEL") for x in L))


def r_rst7(path, na):
    L = open(path).read().split("\n")
    n = int(L[1][:5]); tm = float(L[1][5:20]) if len(L[1]) > 5 else None
    fields = []
    nl = (n + 1) // 2
    for line in L[2:2 + nl]:
        fields += [line[j:j + 12] for j in range(0, len(line), 12)]
    xyz = np.array([float(f) for f in fields[:3 * n]]).reshape(n, 3).tolist()
    cell = None
    if len(L) > 2 + nl and L[2 + nl].strip():
        b = [float(L[2 + nl][j:j + 12]) for j in range(0, 72, 12)]
        cell = [(b[:3], b[3:])]
    return dict(xyz=[xyz], xyz_text=None, time=[tm], cell=cell)


def r_nc(path, na, restart=False):
    from scipy.io import netcdf_file
    f = netcdf_file(path, "r", mmap=False)
    v = f.variables
    xyz = np.array(v["coordinates"].data, dtype=np.float64)
    tm = np.array(v["time"].data, dtype=np.float64).reshape(-1).tolist() if "time" in v else None
    cell = None
    if "cell_lengths" in v:
        cl = np.array(v["cell_lengths"].data, dtype=np.float64).reshape(-1, 3); ca = np.array(v["cell_angles"].data, dtype=np.float64).reshape(-1, 3)
        cell = [(a.tolist(), b.tolist()) for a, b in zip(cl, ca)]
    units = v["coordinates"].units.decode() if hasattr(v["coordinates"], "units") else None
    f.close()
    if restart:
        xyz = xyz[None]
    return dict(xyz=xyz.tolist(), xyz_text=None, time=tm, cell=cell, units=units)


def r_h5(path, na):
    import tables
    f = tables.open_file(path, "r")
    xyz = np.array(f.root.coordinates[:], dtype=np.float64)
    units = f.root.coordinates.attrs["units"]
    units = units.decode() if isinstance(units, bytes) else str(units)
    tm = np.array(f.root.time[:], dtype=np.float64).tolist() if "time" in f.root else None
    cell = None
    if "cell_lengths" in f.root:
        cell = [(a.tolist(), b.tolist()) for a, b in zip(np.array(f.root.cell_lengths[:], dtype=np.float64), np.array(f.root.cell_angles[:], dtype=np.float64))]
    f.close()
    return dict(xyz=xyz.tolist(), xyz_text=None, time=tm, cell=cell, units=units)


def _box_to_cell(box):
    v = np.array(box, dtype=np.float64).reshape(3, 3)
    ln = [np.linalg.norm(x) for x in v]
    if min(ln) == 0:
        return None
    ang = [np.degrees(np.arccos(np.dot(p, q) / (np.linalg.norm(p) * np.linalg.norm(q)))) for p, q in ((v[1], v[2]), (v[0], v[2]), (v[0], v[1]))]
    return (ln, ang)


def r_trr(path, na):
    b = open(path, "rb").read()
    o = 0
    frames = []; times = []; cells = []
    while o < len(b):
        magic, slen1, slen2 = struct.unpack(">iii", b[o:o + 12]); o += 12
        if magic != 1993:
            raise ValueError("trr magic %d" % magic)
        o += (slen2 + 3) // 4 * 4
        ir, e, box, vir, pres, topz, sym, x, v, f, natoms, step, nre = struct.unpack(">13i", b[o:o + 52]); o += 52
        dbl = (box // 9 == 8) if box else (x // (3 * natoms) == 8)
        ft = ">d" if dbl else ">f"; sz = 8 if dbl else 4
        tm = struct.unpack(ft, b[o:o + sz])[0]; o += sz
        o += sz   # lambda
        if box:
            cells.append(_box_to_cell(struct.unpack(">9" + ft[1], b[o:o + box]))); o += box
        else:
            cells.append(None)
        o += vir + pres
        frames.append(np.array(struct.unpack(">%d%s" % (3 * natoms, ft[1]), b[o:o + x])).reshape(natoms, 3).tolist()); o += x + v + f
        times.append(tm)
    return dict(xyz=frames, xyz_text=None, time=times, cell=cells)


def r_xtc(path, na):
    """independent decoder (harness/vp/xtcdec.py): headers, raw coordinates (<= 9 atoms) and the compressed integer coordinates"""
    from ..xtcdec import read_xtc
    fr = read_xtc(path)
    return dict(xyz=[f["xyz"].tolist() for f in fr], xyz_text=None, xyz_ints=[None if f["ints"] is None else f["ints"].tolist() for f in fr],
                time=[f["time"] for f in fr], cell=[_box_to_cell(f["box"]) for f in fr], prec=[f["prec"] for f in fr])


def r_dcd(path, na):
    b = open(path, "rb").read()
    o = 0

    def rec():
        nonlocal o
        n = struct.unpack("<i", b[o:o + 4])[0]
        d = b[o + 4:o + 4 + n]
        if struct.unpack("<i", b[o + 4 + n:o + 8 + n])[0] != n:
            raise ValueError("dcd record markers differ")
        o += n + 8
        return d
    h = rec()
    if h[:4] != b"CORD":
        raise ValueError("dcd magic")
    ic = struct.unpack("<20i", h[4:84])
    nset, extra = ic[0], ic[10]
    rec()
    natoms = struct.unpack("<i", rec())[0]
    frames = []; cells = []
    while o < len(b):
        if extra:
            A, gam, B, bet, alp, C = struct.unpack("<6d", rec())
            ang = [alp, bet, gam]
            if all(abs(x) <= 1.0 for x in ang):       # CHARMM convention: cosines
                ang = [90.0 - np.degrees(np.arcsin(x)) for x in ang]
            cells.append(([A, B, C], ang) if A > 0 else None)
        else:
            cells.append(None)
        x = struct.unpack("<%df" % natoms, rec()); y = struct.unpack("<%df" % natoms, rec()); z = struct.unpack("<%df" % natoms, rec())
        frames.append(np.array([x, y, z]).T.tolist())
    return dict(xyz=frames, xyz_text=None, time=None, cell=cells, header_nset=nset)


def _read_independent(case, paths):
    k = case["kind"]; na = case["na"]
    has_cell = case["cellkind"] != "none"
    if k == "xyz":
        return r_xyz(paths[0], na)
    if k == "mdcrd":
        return r_mdcrd(paths[0], na, has_cell)
    if k == "lammpstrj":
        return r_lammpstrj(paths[0], na)
    if k == "gro":
        return r_gro(paths[0], na, case["opt"])
    if k == "pdb":
        return r_pdb(paths[0], na)
    if k == "nc":
        return r_nc(paths[0], na)
    if k == "h5":
        return r_h5(paths[0], na)
    if k == "trr":
        return r_trr(paths[0], na)
    if k == "xtc":
        return r_xtc(paths[0], na)
    if k == "dcd":
        return r_dcd(paths[0], na)
    if k in ("rst7", "ncrst"):
        parts = [r_rst7(p, na) if k == "rst7" else r_nc(p, na, restart=True) for p in paths]
        return dict(xyz=[p["xyz"][0] for p in parts], xyz_text=None, time=[p["time"][0] if p["time"] else None for p in parts],
                    cell=[p["cell"][0] for p in parts] if all(p["cell"] for p in parts) else None)
    return None      # dtr: no independent reader (stated in the evidence)


def _cell_problem(got, exp_lengths_nm, exp_angles, what, ltol=3e-4, atol=2.5e-2):
    if got is None:
        return what + ": unit cell missing although the format stores it"
    gl, ga = np.array(got[0], dtype=float), np.array(got[1], dtype=float)
    if np.abs(gl - exp_lengths_nm).max() > ltol * (1 + np.abs(exp_lengths_nm).max()) or np.abs(ga - exp_angles).max() > atol:
        return what + ": unit cell differs (got %s %s, expected %s %s)" % (np.round(gl, 4).tolist(), np.round(ga, 3).tolist(), np.round(exp_lengths_nm, 4).tolist(), exp_angles.tolist())
    return None


def _check(case):
    import warnings
    import mdtraj as md
    warnings.simplefilter("ignore")
    d = os.path.join(case["_dir"], "c%d" % case["_id"])
    os.makedirs(d, exist_ok=True)
    try:
        return _check_in(case, d, md)
    finally:
        shutil.rmtree(d, ignore_errors=True)


def _check_in(case, d, md):
    t = _traj(case)
    k = case["kind"]; nf = case["nf"]; na = case["na"]
    path = os.path.join(d, "t." + case["ext"])
    kw = {}
    if k == "gro":
        kw["precision"] = case["opt"]
    if k == "pdb":
        kw["ter"] = not (case["opt"] & 1); kw["header"] = not (case["opt"] & 2)
    x0 = t.xyz.copy()
    try:
        t.save(path, **kw)
    except Exception as e:  # noqa
        if case["save"] == "either":
            return None
        return ["save raised %s: %s" % (type(e).__name__, str(e)[:100])]
    probs = []
    if not np.array_equal(t.xyz, x0):
        probs.append("save modified the trajectory's coordinates")
    if case["numbered"]:
        paths = [path + "." + str(i + 1).zfill(len(str(nf))) for i in range(nf)]
    else:
        paths = [path]
    if not all(os.path.exists(p) for p in paths):
        return probs + ["save did not create %s" % [os.path.basename(p) for p in paths if not os.path.exists(p)]]
    V = np.array(case["xyz"], dtype=np.float64)           # U
    TOL = np.array(case["tol"], dtype=np.float64)
    unitU = case["unitU"]
    exp_t = np.array(case["times"], dtype=np.float64) * 1e-3
    cells = np.array(case["cells"], dtype=np.float64) if case["cellkind"] != "none" else None
    # ---- 1. the bytes, through an independent reader, in native units -------------------------------------------------
    try:
        ind = _read_independent(case, paths)
    except Exception as e:  # noqa
        ind = None
        if case["save"] == "ok":
            probs.append("independent reader cannot parse the file: %s: %s" % (type(e).__name__, str(e)[:100]))
    if ind is not None:
        if len(ind["xyz"]) != nf:
            probs.append("file holds %d frames, %d were saved" % (len(ind["xyz"]), nf))
        else:
            org = np.zeros((nf, 3))
            if ind.get("origin") and cells is not None:
                pass
            for fr in range(nf):
                if ind["xyz"][fr] is None:
                    continue
                F = np.array(ind["xyz"][fr], dtype=np.float64)
                if F.shape != (na, 3):
                    probs.append("file frame %d holds %s values for %d atoms" % (fr, F.shape, na)); break
                diff = np.abs(F * unitU - V[fr])
                if k == "lammpstrj":
                    # LAMMPS dumps are relative to nothing: absolute positions, box from 0; tolerate only exact equality up to the tolerance
                    pass
                bad = np.argwhere(diff > TOL[fr] + 1e-9)
                if len(bad):
                    a, x = bad[0]
                    probs.append("file value (native %s) of frame %d atom %d axis %d is %r = %.6f nm, the trajectory holds %.6f nm (allowed error %.2g nm)"
                                 % (case["unit"], fr, a, x, F[a, x], F[a, x] * unitU * U, V[fr, a, x] * U, TOL[fr, a, x] * U)); break
                if case["exact_quanta"] and ind.get("xyz_ints") and ind["xyz_ints"][fr] is not None:
                    N = np.array(ind["xyz_ints"][fr]); LO = np.array(case["lo"][fr]); HI = np.array(case["hi"][fr])
                    if ((N < LO) | (N > HI)).any():
                        a, x = np.argwhere((N < LO) | (N > HI))[0]
                        probs.append("compressed integer %d of frame %d atom %d axis %d is not a correct rounding of %.6f nm at precision 1000" % (N[a, x], fr, a, x, V[fr, a, x] * U)); break
                    if abs(ind["prec"][fr] - 1000.0) > 1e-3:
                        probs.append("XTC precision field is %r" % ind["prec"][fr]); break
                if case["exact_quanta"] and ind.get("xyz_text"):
                    dec = int(round(np.log10(unitU / case["q"])))
                    LO = np.array(case["lo"][fr]); HI = np.array(case["hi"][fr])
                    for a in range(na):
                        for x in range(3):
                            s = ind["xyz_text"][fr][a][x]
                            if "." not in s or len(s.split(".")[1]) != dec:
                                probs.append("text field %r does not have %d decimals" % (s, dec)); break
                            n = int(round(float(s) * 10 ** dec))
                            if not (LO[a, x] <= n <= HI[a, x]):
                                probs.append("text field %r is not a correct rounding of %.6f %s" % (s, V[fr, a, x] / unitU, case["unit"])); break
                        else:
                            continue
                        break
        if ind.get("units") is not None:
            want = "nanometers" if case["unit"] == "nm" else "angstrom"
            if not str(ind["units"]).lower().startswith(want[:8]):
                probs.append("file declares units %r for coordinates" % ind["units"])
        if case["time_kept"] and ind["time"] is not None and len(ind["time"]) == nf:
            tt = np.array([np.nan if v is None else v for v in ind["time"]], dtype=float)
            if not np.allclose(tt, exp_t, rtol=1e-6, atol=1e-6):
                probs.append("file holds times %s (ps), the trajectory has %s" % (tt.tolist(), exp_t.tolist()))
        if case["cell"] in ("kept", "first") and ind["cell"] is not None and len(ind["cell"]) == nf and k != "mdcrd":
            for fr in range(nf if case["cell"] == "kept" else 1):
                p = _cell_problem(ind["cell"][fr] and (np.array(ind["cell"][fr][0]) * unitU * U, ind["cell"][fr][1]), cells[fr, :3] * U, cells[fr, 3:], "file, frame %d" % fr)
                if p:
                    probs.append(p); break
        elif case["cell"] == "kept" and k == "mdcrd" and ind["cell"] is not None:
            for fr in range(nf):
                if np.abs(np.array(ind["cell"][fr][0]) * unitU * U - cells[fr, :3] * U).max() > 2e-4:
                    probs.append("file, frame %d: box lengths differ" % fr); break
        elif case["cell"] == "kept" and ind["cell"] is None:
            probs.append("file holds no unit cell although the format stores it")
        if k == "pdb":
            if bool(case["opt"] & 1) != (ind["nter"] == 0) and na > 5:
                probs.append("ter=%s but the file has %d TER records" % (not (case["opt"] & 1), ind["nter"]))
            if bool(case["opt"] & 2) == ind["has_model"]:
                probs.append("header=%s but MODEL/ENDMDL records %s" % (not (case["opt"] & 2), "present" if ind["has_model"] else "absent"))
            if ind["has_remark"] != (case["cellkind"] != "none"):
                probs.append("REMARK/CRYST1 header %s although the trajectory has %s unit cell" % ("present" if ind["has_remark"] else "absent", "a" if case["cellkind"] != "none" else "no"))
        if k == "dcd" and ind.get("header_nset") != nf:
            probs.append("DCD header declares %s frames, %d were written" % (ind.get("header_nset"), nf))
    if case["save"] == "ambiguous":
        return probs or None
    # ---- 2. load back -----------------------------------------------------------------------------------------------
    try:
        if case["numbered"]:
            parts = [(md.load_restrt if k == "rst7" else md.load_ncrestrt)(p, top=t.topology) for p in paths]
            r = md.join(parts)
        else:
            r = md.load(path, top=t.topology)
    except Exception as e:  # noqa
        if case["save"] == "either":
            return probs or None
        return probs + ["load raised %s: %s" % (type(e).__name__, str(e)[:100])]
    if r.n_frames != nf or r.n_atoms != na:
        return probs + ["loaded %d frames x %d atoms, saved %d x %d" % (r.n_frames, r.n_atoms, nf, na)]
    diff = np.abs(r.xyz.astype(np.float64) / U - V)
    bad = np.argwhere(diff > TOL + 1 + np.abs(V) / 4e6)
    if len(bad):
        fr, a, x = bad[0]
        probs.append("loaded coordinate of frame %d atom %d axis %d is %.6f nm, saved %.6f nm (allowed error %.2g nm)" % (fr, a, x, r.xyz[fr, a, x], V[fr, a, x] * U, TOL[fr, a, x] * U))
    if case["time_kept"] and not np.allclose(r.time, exp_t, rtol=1e-6, atol=1e-6):
        probs.append("loaded times %s, saved %s" % (r.time.tolist(), exp_t.tolist()))
    if case["cell"] == "absent":
        if r.unitcell_lengths is not None and case["cellkind"] == "none":
            probs.append("loaded a unit cell %s although none was saved" % r.unitcell_lengths[0].tolist())
    elif r.unitcell_lengths is None:
        probs.append("loaded no unit cell although the format stores it")
    else:
        for fr in range(nf):
            p = _cell_problem((r.unitcell_lengths[fr], r.unitcell_angles[fr]), cells[fr, :3] * U, cells[fr, 3:], "loaded, frame %d" % fr)
            if p:
                probs.append(("PDBCELL " if case["cell"] == "first" and fr > 0 else "") + p); break
    # ---- 3. the format's own reader in native units agrees with the bytes -----------------------------------------------
    if not case["numbered"] and k not in ("pdb",):
        try:
            with (md.open(path, n_atoms=na) if k == "mdcrd" else md.open(path)) as fh:
                out = fh.read()
            nx = np.asarray(out[0] if isinstance(out, tuple) else out, dtype=np.float64)
            if nx.shape == (nf, na, 3):
                d2 = np.abs(nx * unitU - V)
                if (d2 > TOL + 1 + np.abs(V) / 4e6).any():
                    probs.append("md.open().read() does not return the coordinates in the format's native unit (%s)" % case["unit"])
        except Exception as e:  # noqa
            probs.append("md.open().read() raised %s" % type(e).__name__)
    return probs or None


def run(ctx):
    r = ctx.tlc("Formats", "Formats.cfg", workers=16, timeout=1800, cfg_text=CFG)
    cases = r.tr
    if not cases:
        ctx.machinery_failure("no cases emitted")
    if ctx.replay:
        cases = [json.load(open(ctx.replay))["first"]["detail"]["case"]]
    elif not ctx.thorough:
        # quick: every (extension, option, pattern, cell kind) with a rotating choice of atoms / frames / time pattern
        by = {}
        for c in cases:
            by.setdefault((c["ext"], c["opt"], c["pat"], c["cellkind"]), []).append(c)
        cases = []
        for key in sorted(by):
            grp = sorted(by[key], key=lambda c: (c["na"], c["nf"], c["timekind"]))
            ctx.rng.shuffle(grp)
            cases += grp[:5]
    ddir = os.path.join(ctx.scratch, "files")
    os.makedirs(ddir, exist_ok=True)
    for i, c in enumerate(cases):
        c["_id"] = i; c["_dir"] = ddir
    res = pool.run_tasks(_check, cases, workers=16, timeout=300, batch=8)
    nfail = 0
    for c, (st, val) in zip(cases, res):
        if st == "ok" and val is None:
            continue
        nfail += 1
        msgs = val if st == "ok" else ["%s: %s" % (st, str(val)[:200])]
        key = None
        if st == "ok" and all(m.startswith("PDBCELL ") for m in msgs):
            key = "pdb:pdb_single_cryst1_record"
        cc = {k: v for k, v in c.items() if not k.startswith("_")}
        ctx.discrepancy(key, "%s na=%d nf=%d pattern=%s cell=%s time=%s opt=%d: %s" % (c["ext"], c["na"], c["nf"], c["pat"], c["cellkind"], c["timekind"], c["opt"], "; ".join(msgs)[:600]),
                        dict(case=cc, problems=msgs), cls="%s: %s" % (c["kind"], re.sub(r"[-0-9.]+", "#", msgs[0])[:80]))
    shutil.rmtree(ddir, ignore_errors=True)
    cov = dict(traces_validated_against_impl=len(cases), cases_emitted=len(r.tr), replays_failing=nfail, extensions=sorted({c["ext"] for c in cases}),
               samples=[{k: v for k, v in cases[0].items() if k in ("ext", "na", "nf", "pat", "cellkind", "timekind", "opt", "save", "cell", "time_kept")}],
               explanation="each case: Trajectory.save; the file parsed by an independent reader (text columns, struct for TRR/DCD, an independent XTC decompressor, scipy.io.netcdf_file for NetCDF, "
                           "tables for HDF5) and compared with the native numbers Formats.tla allows (unit, quantum, rounding range per coordinate, times, cell, file series, TER/header options); "
                           "then md.load / load_restrt and md.open().read() compared with file and original")
    return ctx.finish(cov, "model_checking", ["DTR files are read back only with mdtraj's own reader; XTC is decoded by an independent decompressor (harness/vp/xtcdec.py, self-checked against the GROMACS-written files of tests/data)",
                                              "coordinates up to +/-1000 nm; lengths in units of 1e-5 nm; float32 slack 2 + |v|/2e6 units"])
