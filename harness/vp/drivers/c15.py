"""C15 — secondary-structure codes follow the DSSP rules on the backbone H-bonds.
spec: specs/Dssp.tla; DsspMC.tla (structural invariants on all small inputs); DsspTrace.tla (trace validation):
real compute_dssp output of every frame must equal the rule set applied to that frame's kabsch_sander relation."""
import concurrent.futures as cf
import json
import os
import re

import numpy as np

from .. import pool, tlc

MC_CFG = """SPECIFICATION Spec
CONSTANTS N = %(N)d
 MaxHB = %(M)d
INVARIANT OnePerResidue
INVARIANT NAExactlySkip
INVARIANT HelixWithinChain
INVARIANT SimplifiedIsImage
INVARIANT NoBondsNoStructure
CHECK_DEADLOCK FALSE
"""
TRACE_CFG = "SPECIFICATION Spec\nCHECK_DEADLOCK FALSE\n"
DATA = "/repo/tests/data/"
BASES = ["2EQQ.pdb", "1bpi.pdb", "bpti.pdb", "1vii.pdb", "aaqaa-wat.pdb", "4OH9.pdb", "1am7_protein.pdb"]


def _variants(t, rs, thorough):
    """yield (tag, trajectory) variants of a structure: perturbed, compressed/expanded, atoms deleted, chains split, two copies"""
    import mdtraj as md
    yield "orig", t
    for sig in ((0.02, 0.05, 0.1) if thorough else (0.03, 0.08)):
        x = t.xyz + rs.normal(0, sig, size=t.xyz.shape).astype(np.float32)
        yield "noise%.2f" % sig, md.Trajectory(x, t.topology)
    for sc in ((0.9, 0.95, 1.05, 1.1) if thorough else (0.93, 1.06)):
        yield "scale%.2f" % sc, md.Trajectory(t.xyz * np.float32(sc), t.topology)
    # delete backbone atoms of a few residues (-> NA, never part of a pattern)
    prot = [r for r in t.topology.residues if r.is_protein]
    if len(prot) > 8:
        drop = set()
        for r in rs.choice(len(prot), size=3, replace=False):
            nm = ["N", "O", "C", "CA"][rs.randint(4)]
            drop |= set(a.index for a in prot[r].atoms if a.name == nm)
        keep = [a.index for a in t.topology.atoms if a.index not in drop]
        yield "del", t.atom_slice(keep)
    # split into two chains at a random residue
    if len(prot) > 10 and t.topology.n_chains == 1:
        k = int(rs.randint(4, len(prot) - 4))
        top = md.Topology()
        c1, c2 = top.add_chain(), top.add_chain()
        for r in t.topology.residues:
            nr = top.add_residue(r.name, c1 if r.index < k else c2, resSeq=r.resSeq)
            for a in r.atoms:
                top.add_atom(a.name, a.element, nr)
        yield "split%d" % k, md.Trajectory(t.xyz, top)
    # two copies side by side as two chains (bridges across chains become possible)
    if t.n_residues <= 60 and t.topology.n_chains == 1:
        sh = np.zeros(3, dtype=np.float32); sh[rs.randint(3)] = 0.48
        yield "dimer", t.stack(md.Trajectory(t.xyz + sh, t.topology))


def _place(a, b, c, bond, angle, torsion):
    """NeRF: position of atom d with |cd| = bond, angle(b,c,d) = angle, dihedral(a,b,c,d) = torsion (degrees)"""
    ang, tor = np.radians(angle), np.radians(torsion)
    bc = c - b; bc /= np.linalg.norm(bc)
    n = np.cross(b - a, bc); n /= np.linalg.norm(n)
    m = np.cross(n, bc)
    d2 = np.array([-bond * np.cos(ang), bond * np.sin(ang) * np.cos(tor), bond * np.sin(ang) * np.sin(tor)])
    return c + d2[0] * bc + d2[1] * m + d2[2] * n


def _peptide(phipsi):
    """ideal poly-alanine backbone (N, CA, C, O, CB) from a list of (phi, psi); nm"""
    import mdtraj as md
    from mdtraj.core import element as E
    N = np.array([0.0, 0.0, 0.0]); CA = np.array([1.458, 0.0, 0.0])
    C = _place(np.array([0.0, 1.0, 0.0]), N, CA, 1.525, 111.0, -60.0)
    atoms = []
    for i, (phi, psi) in enumerate(phipsi):
        if i > 0:
            pN, pCA, pC = atoms[-1][0], atoms[-1][1], atoms[-1][2]
            N = _place(pN, pCA, pC, 1.329, 116.2, phipsi[i - 1][1])
            CA = _place(pCA, pC, N, 1.458, 121.7, 180.0)
            C = _place(pC, N, CA, 1.525, 111.0, phi)
        O = _place(N, CA, C, 1.231, 120.5, psi + 180.0)
        CB = _place(C, N, CA, 1.53, 110.5, -122.5)
        atoms.append((N, CA, C, O, CB))
    top = md.Topology(); ch = top.add_chain()
    xyz = []
    for i, a in enumerate(atoms):
        r = top.add_residue("ALA", ch, resSeq=i + 1)
        for nm, pos in zip(("N", "CA", "C", "O", "CB"), a):
            top.add_atom(nm, E.get_by_symbol(nm[0]), r)
            xyz.append(pos / 10.0)
    return md.Trajectory(np.array(xyz, dtype=np.float32)[None], top)


SYNTH = {"alpha": [(-57, -47)] * 14, "pi": [(-57, -70)] * 16, "three10": [(-49, -26)] * 12,
         "alpha_pi": [(-57, -47)] * 8 + [(-57, -70)] * 9, "pi_alpha_310": [(-57, -70)] * 8 + [(-57, -47)] * 7 + [(-49, -26)] * 6,
         "strand_turn": [(-120, 130)] * 6 + [(-60, -30), (-90, 0)] + [(-120, 130)] * 6, "ppII": [(-75, 145)] * 10}


def _ladder(rs):
    """a designed beta ladder: residues are placed as isolated N/CA/C/O groups so that exactly the chosen residue pairs are mutually
    H-bonded (antiparallel pattern), with gaps of 0..4 unpaired residues on either strand between consecutive pairs -- ladders of
    several bridge segments linked through one, two or more bulges, which no protein of tests/data and no ideal peptide contains.
    (What the frame really contains is read back through md.kabsch_sander by the trace record; this only designs the input.)"""
    import mdtraj as md
    from mdtraj.core import element as E
    m = int(rs.randint(3, 9))
    ga = [int(g) for g in rs.choice([0, 0, 0, 1, 1, 2, 3, 4], size=m)]
    gb = [int(g) for g in rs.choice([0, 0, 0, 0, 1, 2, 3, 5], size=m)]
    a = [3]
    for k in range(1, m):
        a.append(a[-1] + 2 + ga[k])
    span_b = sum(2 + gb[k] for k in range(1, m))
    b0 = a[-1] + 4 + int(rs.randint(0, 3)) + span_b
    b = [b0]
    for k in range(1, m):
        b.append(b[-1] - 2 - gb[k])
    n_res = b0 + 4
    y = np.array([0.0, 1.0, 0.0])
    u = {}
    for ak, bk in zip(a, b):
        u[bk] = y; u[ak] = -y
    co = {r: u[r] for r in u}
    for r in u:
        if r - 1 not in co:
            co[r - 1] = -u[r]            # the amide hydrogen of r points along the previous residue's O->C direction
    pos = {}
    for k, (ak, bk) in enumerate(zip(a, b)):
        o = np.array([3.0 * k, 0.0, 0.0])
        pos[ak] = [o + [0.0, 0.413, 0.0], o + [0.15, 0.50, 0.0], o + [0.3, 0.413, 0.0], o + [0.3, 0.29, 0.0]]
        pos[bk] = [o + [0.3, 0.0, 0.0], o + [0.15, -0.09, 0.0], o + [0.0, 0.0, 0.0], o + [0.0, 0.123, 0.0]]
    for r in range(n_res):
        if r not in pos:
            o = np.array([1.5 * r, 5.0 + 1.3 * (r % 3), 4.0]); c = o + [0.25, 0.0, 0.0]
            pos[r] = [o, o + [0.12, 0.08, 0.0], c, c + 0.123 * co.get(r, y)]
    top = md.Topology(); ch = top.add_chain()
    xyz = []
    for r in range(n_res):
        res = top.add_residue("ALA", ch, resSeq=r + 1)
        for nm, p_ in zip(("N", "CA", "C", "O"), pos[r]):
            top.add_atom(nm, E.get_by_symbol(nm[0]), res)
            xyz.append(p_)
    return md.Trajectory(np.array(xyz, dtype=np.float32)[None], top), dict(a=a, b=b)


def _gen_synth(task):
    import mdtraj as md
    name, seed, thorough, base_id = task
    rs = np.random.RandomState(seed)
    if name.startswith("ladder"):
        recs = []
        for i in range(12 if not thorough else 60):
            t, design = _ladder(rs)
            try:
                r = _record(t, 0, "synthetic:%s/%d pairs=%s" % (name, i, list(zip(design["a"], design["b"]))), base_id + i)
            except Exception as e:  # noqa
                r = dict(id=base_id + i, tag="synthetic:%s/%d" % (name, i), error="%s: %s" % (type(e).__name__, str(e)[:200]))
            if r is not None:
                r["designed_pairs"] = len(design["a"]); r["designed_found"] = sum(1 for x, y_ in zip(design["a"], design["b"]) if [x, y_] in r.get("hb", []) and [y_, x] in r.get("hb", []))
                recs.append(r)
        return recs
    t = _peptide(SYNTH[name])
    recs = []
    rid = base_id
    for tag, v in _variants(t, rs, thorough):
        try:
            r = _record(v, 0, "synthetic:%s/%s" % (name, tag), rid)
        except Exception as e:  # noqa
            r = dict(id=rid, tag="synthetic:%s/%s" % (name, tag), error="%s: %s" % (type(e).__name__, str(e)[:200]))
        rid += 1
        if r is not None:
            recs.append(r)
    return recs


def _record(t, f, tag, rid):
    """one trace record from frame f (None if a bend angle is within 1e-3 degrees of the 70-degree threshold)"""
    import mdtraj as md
    from mdtraj.geometry.hbond import _prep_kabsch_sander_arrays
    _, nco, ca, pro, isprot = _prep_kabsch_sander_arrays(t)
    chain = [r.chain.index for r in t.topology.residues]
    ks = md.kabsch_sander(t[f])[0].tocoo()
    hb = [[int(c), int(r)] for r, c in zip(ks.row, ks.col)]          # [donor, acceptor]
    n = t.n_residues
    bend = [0] * n
    x = t.xyz[f].astype(np.float64)
    for i in range(2, n - 2):
        if chain[i - 2] == chain[i + 2] and isprot[i - 2] and isprot[i] and isprot[i + 2]:
            u = x[ca[i - 2]] - x[ca[i]]; v = x[ca[i]] - x[ca[i + 2]]
            cosang = float(np.dot(u, v) / np.sqrt(np.dot(u, u) * np.dot(v, v)))
            k = np.degrees(np.arccos(np.clip(cosang, -1, 1)))
            if abs(k - 70.0) < 1e-3:
                return None
            bend[i] = int(k > 70.0)
    if t.n_frames > 1:
        # the frame is evaluated INSIDE a multi-frame call (cached per trajectory): its codes follow from its own backbone only
        if getattr(t, "_vp_dssp", None) is None:
            t._vp_dssp = (md.compute_dssp(t, simplified=False), md.compute_dssp(t, simplified=True))
        full, simp = t._vp_dssp[0][f], t._vp_dssp[1][f]
    else:
        full = md.compute_dssp(t[f], simplified=False)[0]
        simp = md.compute_dssp(t[f], simplified=True)[0]
    return dict(id=rid, tag=tag, n=n, chain=chain, skip=[int(not p) for p in isprot], hb=hb, bend=bend,
                codes=[str(c) for c in full], simplified=[str(c) for c in simp])


def _gen(task):
    import mdtraj as md
    fn, seed, thorough, base_id = task
    rs = np.random.RandomState(seed)
    t = md.load(DATA + fn)
    if fn == "1am7_protein.pdb" and not thorough:
        t = t.atom_slice([a.index for a in t.topology.atoms if a.residue.index < 70])
    frames = range(min(t.n_frames, 6 if thorough else 2))
    recs = []
    rid = base_id
    for f in frames:
        for tag, v in _variants(t[f], rs, thorough):
            try:
                r = _record(v, 0, "%s#%d/%s" % (fn, f, tag), rid)
            except Exception as e:  # noqa
                r = dict(id=rid, tag="%s#%d/%s" % (fn, f, tag), error="%s: %s" % (type(e).__name__, str(e)[:200]))
            rid += 1
            if r is not None:
                recs.append(r)
    if t.n_frames > 1:
        # frames evaluated inside ONE multi-frame call (what compute_dssp is normally used for)
        tm = t[:min(t.n_frames, 5)]
        for f in range(1, tm.n_frames):
            try:
                r = _record(tm, f, "%s#%d/in a %d-frame call" % (fn, f, tm.n_frames), rid)
            except Exception as e:  # noqa
                r = dict(id=rid, tag="%s#%d/multi" % (fn, f), error="%s: %s" % (type(e).__name__, str(e)[:200]))
            rid += 1
            if r is not None:
                recs.append(r)
    return recs


def run(ctx):
    ctx.tlc("DsspMC", "DsspMC.cfg", workers=16, timeout=3000, cfg_text=MC_CFG % (dict(N=7, M=3) if ctx.thorough else dict(N=7, M=2)))
    tasks = [(fn, ctx.seed * 100 + i, ctx.thorough, i * 10000) for i, fn in enumerate(BASES)]
    if ctx.replay:
        recs = [json.load(open(ctx.replay))["first"]["detail"]["rec"]]
    else:
        recs = []
        stasks = [(nm, ctx.seed * 100 + 50 + i, ctx.thorough, 500000 + i * 1000) for i, nm in enumerate(sorted(SYNTH) + ["ladder1", "ladder2", "ladder3", "ladder4"])]
        for st, val in pool.run_tasks(_gen, tasks, workers=8, timeout=900, batch=1) + pool.run_tasks(_gen_synth, stasks, workers=8, timeout=900, batch=1):
            if st != "ok":
                ctx.machinery_failure("trace generation failed: %s %s" % (st, str(val)[:400]))
            recs += val
    errs = [r for r in recs if "error" in r]
    for r in errs:
        ctx.discrepancy(None, "%s: compute_dssp/kabsch_sander raised %s" % (r["tag"], r["error"]), dict(rec=r), cls="raised " + r["error"].split(":")[0])
    recs = [r for r in recs if "error" not in r]
    byid = {r["id"]: r for r in recs}
    recs.sort(key=lambda r: -r["n"])
    parts = 16
    files = []
    for p in range(parts):
        chunk = recs[p::parts]
        if chunk:
            fn = os.path.join(ctx.scratch, "dssp-%d.json" % p)
            json.dump({"recs": chunk}, open(fn, "w"))
            files.append(fn)

    def _val(i_fn):
        i, fn = i_fn
        return tlc.run("DsspTrace", "DT%d.cfg" % i, os.path.join(ctx.scratch, "tlc-dt%d" % i), workers=1, cfg_text=TRACE_CFG, env={"TRACE_FILE": fn}, timeout=3000, heap="2g")
    with cf.ThreadPoolExecutor(max_workers=16) as ex:
        outs = list(ex.map(_val, enumerate(files)))
    acc, rej = set(), {}
    for r in outs:
        ctx.tlc_runs.append(dict(module="DsspTrace", states=r.distinct, transitions=r.generated, wall_s=round(r.wall, 1), ok=r.ok))
        if not r.ok:
            ctx.machinery_failure("DsspTrace failed: %s" % (r.violation or r.out)[-800:])
        ctx.states += r.distinct; ctx.transitions += r.generated
        for line in r.prints:
            m = re.match(r'<<"ACCEPT", (\d+)>>', line)
            if m:
                acc.add(int(m.group(1)))
            m = re.match(r'<<"REJECT", (\d+), (.*)', line, re.S)
            if m:
                rej[int(m.group(1))] = m.group(2)
    lost = [r["id"] for r in recs if r["id"] not in acc and r["id"] not in rej]
    if lost:
        ctx.machinery_failure("trace validation lost %d records" % len(lost))
    for rid, why in sorted(rej.items()):
        rec = byid[rid]
        diffs = re.findall(r'"([^".]+/[^"]+)"', why)
        ctx.discrepancy(None, "%s: codes differ from the DSSP rules at %d residues (rule/code): %s" % (rec["tag"], len(diffs), diffs[:8]), dict(rec=rec, verdict=why[:2000]),
                        cls="codes differ: " + ",".join(sorted(set(diffs))[:4]) if diffs else "simplified codes are not the image of the full codes")
    seen = sorted(set(c for r in recs for c in r["codes"]))
    cov = dict(traces_validated_against_impl=len(recs), accepted=len(acc), rejected=len(rej), residues=sum(r["n"] for r in recs), codes_seen=seen,
               multi_chain_frames=sum(1 for r in recs if len(set(r["chain"])) > 1), frames_with_NA=sum(1 for r in recs if 1 in r["skip"]),
               samples=[dict(tag=r["tag"], n=r["n"], hb=r["hb"][:12], codes="".join(c if c != " " else "-" for c in r["codes"])) for r in recs[-2:]],
               explanation="structural invariants of the rule set model-checked on all inputs with 7 residues and <=2 (thorough: 3) H-bonds x chain breaks x skipped residues; "
                           "real frames (7 proteins from tests/data; perturbed, compressed/expanded, backbone atoms deleted, chains split, dimers) validated record by record: "
                           "compute_dssp output must equal the transcribed DSSP rules applied to kabsch_sander's relation and C-alpha bends of the same frame")
    return ctx.finish(cov, "model_checking", ["the H-bond relation is taken from md.kabsch_sander (its correctness is C14's subject); frames with a C-alpha bend angle within 1e-3 degrees of 70 are excluded",
                                              "rule transcription follows DSSP 2.2 as cited by dssp.cpp"])
