"""C17 — unit-cell lengths/angles and box vectors describe the same cell.
spec: specs/UnitCell.tla.  Binding: transition-coverage replay with rotated vector descriptions; Gram-matrix oracle."""
import json
import os
import zlib

import numpy as np

from .. import pool

CFG = """SPECIFICATION Spec
CONSTANTS NF = %(NF)d
 D = %(D)d
INVARIANT FieldLen
INVARIANT AllValid
INVARIANT NoHalfSetAfterVectors
PROPERTY CompleteIff
PROPERTY IndexKeepsEach
%(view)s
ACTION_CONSTRAINT %(emit)s
CHECK_DEADLOCK FALSE
"""
_env = {}
NA = 4


def _std_vectors(ln, cs):
    la, lb, lc = [x / 6.0 for x in ln]
    ca, cb, cg = [x / 6.0 for x in cs]
    sg = np.sqrt(1 - cg * cg)
    a = np.array([la, 0, 0]); b = np.array([lb * cg, lb * sg, 0])
    cx = lc * cb; cy = lc * (ca - cb * cg) / sg
    c = np.array([cx, cy, np.sqrt(lc * lc - cx * cx - cy * cy)])
    return np.array([a, b, c])


def _gram(ln, cs):
    la, lb, lc = [x / 6.0 for x in ln]
    ca, cb, cg = [x / 6.0 for x in cs]
    return np.array([[la * la, la * lb * cg, la * lc * cb], [la * lb * cg, lb * lb, lb * lc * ca], [la * lc * cb, lb * lc * ca, lc * lc]])


def _rot(rs):
    """a rotated description of the cell: generic rotations, and (every third draw) one of the 24 axis-aligned ones -- half and
    quarter turns keep a rectangular cell's vectors on the axes, with negative or permuted components"""
    if rs.randint(3) == 0:
        while True:
            p = rs.permutation(3); sg = rs.choice([-1.0, 1.0], size=3)
            m = np.zeros((3, 3)); m[np.arange(3), p] = sg
            if np.linalg.det(m) > 0:
                return m
    q = rs.randn(4); q /= np.linalg.norm(q)
    w, x, y, z = q
    return np.array([[1 - 2 * (y * y + z * z), 2 * (x * y - z * w), 2 * (x * z + y * w)],
                     [2 * (x * y + z * w), 1 - 2 * (x * x + z * z), 2 * (y * z - x * w)],
                     [2 * (x * z - y * w), 2 * (y * z + x * w), 1 - 2 * (x * x + y * y)]])


def _base(nf):
    import mdtraj as md
    top = md.Topology(); ch = top.add_chain()
    for i in range(NA):
        top.add_atom("CA", md.element.carbon, top.add_residue("ALA", ch))
    rs = np.random.RandomState(3)
    return md.Trajectory((rs.rand(nf, NA, 3) * 0.5 + 0.2).astype(np.float32), top, time=np.arange(nf, dtype=float))


def _replay(task):
    import mdtraj as md
    tr, variant = task
    rs = np.random.RandomState(variant)
    t = _base(_env["NF"])
    for k, s in enumerate(tr["hist"]):
        op, arg = s["op"], s["arg"]
        try:
            if op == "set_vectors":
                V = np.array([_std_vectors(ln, cs) @ _rot(rs).T for ln, cs in zip(arg[0], arg[1])])
                t.unitcell_vectors = V if variant % 3 else V.astype(np.float32)
            elif op == "set_vectors_none":
                t.unitcell_vectors = None
            elif op == "set_vectors_zeros":
                t.unitcell_vectors = np.zeros((t.n_frames, 3, 3))
            elif op == "set_lengths_none":
                t.unitcell_lengths = None
            elif op == "set_angles_none":
                t.unitcell_angles = None
            elif op == "set_lengths":
                new = np.array([[x / 6.0 for x in ln] for ln in arg[0]])
                cur = t.unitcell_lengths
                if cur is not None and cur.shape == new.shape and variant % 4 == 1:
                    cur[:] = new; t.unitcell_lengths = cur          # the SAME array object, mutated and assigned back (t.unitcell_lengths *= s)
                elif cur is not None and cur.shape == new.shape and variant % 4 == 2:
                    t.unitcell_lengths[...] = new                   # edited in place through the getter
                else:
                    t.unitcell_lengths = new
            elif op == "set_angles":
                new = np.degrees(np.arccos(np.array([[x / 6.0 for x in cs] for cs in arg[0]])))
                cur = t.unitcell_angles
                if cur is not None and cur.shape == new.shape and variant % 4 == 1:
                    cur[:] = new; t.unitcell_angles = cur
                elif cur is not None and cur.shape == new.shape and variant % 4 == 2:
                    t.unitcell_angles[...] = new
                else:
                    t.unitcell_angles = new
            elif op == "index":
                idx0 = [i - 1 for i in arg]
                if len(idx0) == 1:
                    t = t[idx0[0]] if variant % 2 else t[idx0[0]:idx0[0] + 1]
                else:
                    t = t[::-1] if (variant % 2 and idx0 == list(range(t.n_frames - 1, -1, -1))) else t[idx0]
            elif op == "join_self":
                t = t.join(t) if variant % 2 else md.join([t, t])
            elif op == "stack_self":
                t = t.stack(t)
            elif op == "atom_slice":
                t = t.atom_slice([0, 1, 2])
            elif op == "atom_slice_inplace":
                t = t.atom_slice([0, 1, 2], inplace=True)
            elif op == "save_load":
                ext = ["h5", "xtc", "dcd", "nc", "trr"][variant % 5]
                p = os.path.join(_env["dir"], "c17-%d.%s" % (os.getpid(), ext))
                t.save(p)
                t = md.load(p, top=t.topology) if ext != "h5" else md.load(p)
                os.unlink(p)
        except Exception as e:  # noqa
            return "step %d %s raised %s: %s" % (k, op, type(e).__name__, str(e)[:100])
        # observers between the steps: reading a getter must never change what later calls see (a cached conversion would)
        if variant % 4 != 3:
            try:
                _ = (t.unitcell_vectors, t.unitcell_lengths, t.unitcell_angles, t.unitcell_volumes if (t.unitcell_lengths is None) == (t.unitcell_angles is None) else None)
            except Exception:
                pass
    # ---- projection vs specification state ---------------------------------------------------------
    L, A, n = tr["L"], tr["A"], tr["n"]
    try:
        if t.n_frames != n:
            return "n_frames %d, specification %d" % (t.n_frames, n)
        tl, ta = t.unitcell_lengths, t.unitcell_angles
        if (tl is not None) != L["has"]:
            return "unitcell_lengths presence %s, specification %s" % (tl is not None, L["has"])
        if (ta is not None) != A["has"]:
            return "unitcell_angles presence %s, specification %s" % (ta is not None, A["has"])
        if L["has"]:
            exp = np.array(L["v"]) / 6.0
            if tl.shape != exp.shape or not np.allclose(tl, exp, rtol=2e-5):
                return "unitcell_lengths values differ"
        if A["has"]:
            exp = np.array(A["v"]) / 6.0
            if ta.shape != exp.shape or not np.allclose(np.cos(np.radians(ta)), exp, atol=2e-5):
                return "unitcell_angles differ (which angle is which?)"
        complete = L["has"] and A["has"]
        V = t.unitcell_vectors
        if (V is not None) != complete:
            return "unitcell_vectors presence %s although cell complete=%s" % (V is not None, complete)
        try:
            vol = t.unitcell_volumes
        except Exception as e:  # noqa
            return "unitcell_volumes raised %s" % type(e).__name__
        if (vol is not None) != complete:
            return "unitcell_volumes presence %s although cell complete=%s" % (vol is not None, complete)
        if complete:
            for i in range(n):
                G = _gram(L["v"][i], A["v"][i])
                Vi = np.asarray(V[i], dtype=np.float64)
                if not np.allclose(Vi @ Vi.T, G, rtol=3e-5, atol=3e-5):
                    return "box vectors do not have the stored lengths and mutual angles (Gram matrix differs)"
                if abs(Vi[0, 1]) > 1e-6 or abs(Vi[0, 2]) > 1e-6 or abs(Vi[1, 2]) > 1e-6 or Vi[0, 0] <= 0 or Vi[1, 1] <= 0 or Vi[2, 2] <= 0:
                    return "box vectors not in the standard orientation"
                vexp = np.sqrt(max(np.linalg.det(G), 0))
                if abs(vol[i] - vexp) > 5e-5 * vexp or abs(np.linalg.det(Vi) - vol[i]) > 5e-5 * vexp:
                    return "volume is not the triple product of the vectors"
    except Exception as e:  # noqa
        return "projection raised %s: %s" % (type(e).__name__, str(e)[:100])
    return None


def _direct(_):
    """the two conversion functions called directly on every catalogue cell under random rotations"""
    from mdtraj.utils import box_vectors_to_lengths_and_angles, lengths_and_angles_to_box_vectors
    lens = [(6, 6, 6), (6, 9, 12), (12, 6, 9)]
    coss = [(0, 0, 0), (0, 0, -3), (0, 0, 3), (0, -3, 0), (-2, -2, -2), (3, 0, -3), (0, -3, 3), (3, 3, -2)]
    rs = np.random.RandomState(11)
    bad = []
    cnt = 0
    for ln in lens:
        for cs in coss:
            ang = np.degrees(np.arccos(np.array(cs) / 6.0))
            a, b, c = lengths_and_angles_to_box_vectors(ln[0] / 6.0, ln[1] / 6.0, ln[2] / 6.0, *ang)
            V = np.array([a, b, c])
            if not np.allclose(V @ V.T, _gram(ln, cs), atol=1e-6):
                bad.append(("to_vectors", ln, cs))
            for _k in range(4):
                W = _std_vectors(ln, cs) @ _rot(rs).T
                la, lb, lc, al, be, ga = box_vectors_to_lengths_and_angles(W[0], W[1], W[2])
                cnt += 1
                if not (np.allclose([la, lb, lc], np.array(ln) / 6.0, rtol=1e-6) and np.allclose(np.cos(np.radians([al, be, ga])), np.array(cs) / 6.0, atol=1e-6)):
                    bad.append(("to_lengths_angles", ln, cs))
    return bad, cnt


def run(ctx):
    NF = 2
    _env.update(NF=NF, dir=ctx.scratch)
    D = 3 if ctx.thorough else 2
    r = ctx.tlc("UnitCell", "UnitCell_D%d.cfg" % D, workers=1, cfg_text=CFG % dict(NF=NF, D=D, view="VIEW View", emit="Emit"), timeout=1500)
    tests = list(r.tr)
    if not ctx.thorough:
        r2 = ctx.tlc("UnitCell", "UnitCell_D3s.cfg", workers=1, simulate=400, depth=7, seed=ctx.seed + 5,
                     cfg_text=(CFG % dict(NF=NF, D=5, view="", emit="EmitLast")))
        sim = list(r2.tr)
        ctx.rng.shuffle(sim)
        tests += sim[:30000]
    tasks = [(t, zlib.crc32(json.dumps(t["hist"]).encode()) % 100000) for t in tests]
    if ctx.replay:
        rp = json.load(open(ctx.replay))
        tasks = [tuple(rp["first"]["detail"]["task"])]
    res = pool.run_tasks(_replay, tasks, workers=16, timeout=60, batch=64)
    nfail = 0
    for t, (st, val) in zip(tasks, res):
        if st == "ok" and val is None:
            continue
        nfail += 1
        ops = [s["op"] for s in t[0]["hist"]]
        msg = val if st == "ok" else "%s: %s" % (st, str(val)[:200])
        ctx.discrepancy(None, "[%s] -> %s" % (" ; ".join(ops), msg), dict(task=[t[0], t[1]], observed=msg),
                        cls="%s after %s" % (msg.split("(")[0][:70] if not msg.startswith("step") else msg.split(" raised")[0][6:] + " raised", ops[-1]))
    (st, val), = pool.run_tasks(_direct, [0], workers=1, batch=1)
    if st != "ok":
        ctx.discrepancy(None, "direct conversion check failed to run: %s" % str(val)[:200], {}, cls="direct conversions")
        ndirect = 0
    else:
        bad, ndirect = val
        for b in bad:
            ctx.discrepancy(None, "conversion function %s wrong for lengths %s cos6 %s" % b, dict(case=b), cls="direct conversion " + b[0])
    samples = [t[0] for t in tasks[:: max(1, len(tasks) // 3)][:3]]
    cov = dict(traces_validated_against_impl=len(tasks), replays_failing=nfail, direct_conversions=ndirect, samples=samples, NF=NF, D=D,
               explanation="every transition of UnitCell.tla (vectors/lengths/angles setters incl. None and zeros, indexing, join, stack, atom_slice, save+load) replayed on "
                           "real trajectories with the vectors given in randomly rotated descriptions; lengths, cosines, presence flags, Gram matrix of the reported "
                           "vectors, standard orientation and volume compared with the specification's exact cell")
    return ctx.finish(cov, "model_checking", ["cells from a catalogue with rational cosines (0, +-1/2, -1/3) and lengths 1, 1.5, 2 nm; float tolerance 3e-5"])
