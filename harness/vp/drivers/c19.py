"""C19 — incremental writing equals one-shot writing and survives a crash.
spec: specs/Writer.tla.  Binding: every terminal behaviour replayed in a forked child that is
terminated at the crash point (os._exit, and SIGKILL in the thorough tier), then md.load in the parent."""
import json
import os
import signal
import time as _time

import numpy as np

from .. import pool, trajgen
from ..core import stratified_sample

# ext -> (HasFlush, CellOpt, TimeOpt, CanAppend, Crashes, ExtraOpt)
FORMATS = {
    "h5": (True, True, True, True, True, True),
    "nc": (True, True, True, False, True, False),
    "dcd": (True, True, False, False, True, False),       # no flush(): writes are unbuffered, header rewritten per timestep
    "xtc": (True, True, False, False, True, False),
    "trr": (False, True, False, False, False, False),
    "mdcrd": (False, True, False, False, False, False),
    "xyz": (False, False, False, False, False, False),
    "lammpstrj": (False, False, False, False, False, False),
    "gro": (False, True, True, False, False, False),
    "pdb": (False, True, False, False, False, False),
    "dtr": (False, False, False, False, False, False),
}
NATOMS = {1: 11, 2: 12}     # atom count variants of the specification; variant 2 is realised as 12 atoms or as ONE atom (a shape numpy-style
#                           assignment would broadcast), chosen per task by _alt()
_ALT = [False]


def _natoms(k):
    return 1 if (k == 2 and _ALT[0]) else NATOMS[k]

CFG = """SPECIFICATION Spec
CONSTANTS MaxFrames = %(MaxFrames)d
 MaxWrite = %(MaxWrite)d
 HasFlush = %(HasFlush)s
 CellOpt = %(CellOpt)s
 TimeOpt = %(TimeOpt)s
 CanAppend = %(CanAppend)s
 Crashes = %(Crashes)s
 ExtraOpt = %(ExtraOpt)s
 Dev = {}
INVARIANT OneShotEquivalence
INVARIANT Durable
INVARIANT DurableIsAccepted
PROPERTY RefusalIsClean
PROPERTY AppendOnly
ACTION_CONSTRAINT Emit
CHECK_DEADLOCK FALSE
"""


def _b(x):
    return "TRUE" if x else "FALSE"


# ---- mdconvert: chunked conversion = a reader-driven schedule of incremental writes (specs/Convert.tla) --------------------------
CONV_CFG = """SPECIFICATION Spec
CONSTANTS MaxN = %(MaxN)d
 MaxChunk = %(MaxChunk)d
 MaxStride = 3
INVARIANT PrefixAlways
INVARIANT CompleteAtEnd
ACTION_CONSTRAINT Emit
CHECK_DEADLOCK FALSE
"""
CONV_FORMATS = ["xtc", "trr", "dcd", "nc", "h5"]
CONV_INDEX = {"all": slice(None), "first": 0, "last": -1, "tail": slice(1, None), "head": slice(None, -1), "even": slice(None, None, 2), "reverse": slice(None, None, -1)}
CONV_TIME = {"xtc", "trr", "nc", "h5"}
_conv_dir = None
_QUIET = []


def _conv_prepare(scratch, maxn):
    global _conv_dir
    _conv_dir = os.path.join(scratch, "conv")
    os.makedirs(_conv_dir, exist_ok=True)
    trajgen.set_shape(0)
    trajgen.trajectory(1).save(os.path.join(_conv_dir, "top.pdb"))
    for ext in CONV_FORMATS:
        for n in range(1, maxn + 1):
            for first in [0] + list(range(1, maxn + 1)):
                p_ = os.path.join(_conv_dir, "in_%d_%d.%s" % (n, first, ext))
                trajgen.rm(p_)
                trajgen.trajectory(n, first=first).save(p_)


def _convert(task):
    """run mdconvert on the configuration and compare the output file with the selection Convert.tla expects"""
    import argparse, contextlib, io, warnings
    import mdtraj as md
    from mdtraj.scripts import mdconvert
    cfgc, ein, eout, k = task
    warnings.simplefilter("ignore")
    if not _QUIET:          # dcdplugin reports empty files on the C stderr
        _QUIET.append(os.dup2(os.open(os.devnull, os.O_WRONLY), 2))
    ns = cfgc["ns"]
    inputs = [os.path.join(_conv_dir, "in_%d_0.%s" % (ns[0], ein))]
    if len(ns) > 1:
        inputs.append(os.path.join(_conv_dir, "in_%d_%d.%s" % (ns[1], ns[0], ein)))          # second file: frames ns[0] .. ns[0]+ns[1]-1
    outp = os.path.join(_conv_dir, "out_%d.%s" % (k, eout))
    trajgen.rm(outp)
    ix = None if cfgc["index"] == "none" else CONV_INDEX[cfgc["index"]]
    args = argparse.Namespace(input=inputs, output=outp, chunk=None if ix is not None else cfgc["chunk"], force=True, stride=cfgc["stride"], index=ix,
                              atom_indices=None, topology=os.path.join(_conv_dir, "top.pdb"))
    exp = [(f - 1) * ns[0] + p_ for f, p_ in cfgc["expect"]]            # frame ids encoded in the coordinates
    try:
        with contextlib.redirect_stdout(io.StringIO()), contextlib.redirect_stderr(io.StringIO()):
            mdconvert.main(args, verbose=False)
    except Exception as e:  # noqa
        trajgen.rm(outp)
        return None if not exp else "mdconvert raised %s: %s" % (type(e).__name__, str(e)[:100])
    try:
        if not exp and not os.path.exists(outp):
            return None
        r = md.load(outp, top=trajgen.topology())
    except Exception as e:  # noqa
        trajgen.rm(outp)
        return None if not exp else "the converted file cannot be loaded: %s: %s" % (type(e).__name__, str(e)[:100])
    finally:
        pass
    got = trajgen.frame_ids(r.xyz)
    prob = None
    if got != exp:
        prob = "converted file holds frames %s, the selection is %s" % (got, exp)
    elif exp and trajgen.atom_ids(r.xyz) != list(range(trajgen.NA)):
        prob = "converted file scrambles the atoms"
    else:
        if not exp:
            pass
        elif ein in CONV_TIME and eout in CONV_TIME and not np.allclose(r.time, np.array(exp) * 2.0 + 1.0):
            prob = "converted file holds times %s for frames %s" % (r.time.tolist(), exp)
        elif r.unitcell_lengths is None or not np.allclose(r.unitcell_lengths[:, 0], 5.0 + 0.1 * np.array(exp), atol=2e-3) or not np.allclose(r.unitcell_angles, 90.0, atol=1e-2):
            prob = "converted file does not hold the unit cells of the selected frames"
    trajgen.rm(outp)
    return prob


def _arrays(ext, ids, s):
    na = _natoms(s["natoms"])
    sc = trajgen.scale_of(ext)
    xyz = trajgen.coords(ids, na) * np.float32(sc)
    L = np.array([[5.0 + 0.1 * f, 6.0, 7.0] for f in ids], dtype=np.float32) * np.float32(sc)
    A = np.full((len(ids), 3), 90.0, dtype=np.float32)
    t = np.asarray(ids, dtype=np.float32) * 2.0 + 1.0
    return xyz, L, A, t, na


def _write(f, ext, ids, s):
    xyz, L, A, t, na = _arrays(ext, ids, s)
    cell, tim = s["cell"], s["time"]
    if ext == "h5":
        extra = {}
        if s.get("extra"):
            # the other optional per-frame arrays of the format, alternating between the two families the writer treats differently
            extra = dict(alchemicalLambda=np.asarray(ids, dtype=np.float32) * 0.1) if na % 2 else dict(velocities=xyz * 0.5)
        f.write(xyz, time=t if tim else None, cell_lengths=L if cell else None, cell_angles=A if cell else None, **extra)
    elif ext == "nc":
        f.write(xyz, time=t if tim else None, cell_lengths=L if cell else None, cell_angles=A if cell else None)
    elif ext == "dcd":
        f.write(xyz, cell_lengths=L if cell else None, cell_angles=A if cell else None)
    elif ext in ("xtc", "trr"):
        box = None
        if cell:
            box = np.zeros((len(ids), 3, 3), dtype=np.float32)
            for i in range(3):
                box[:, i, i] = L[:, i]
        f.write(xyz, time=t, box=box)
    elif ext == "mdcrd":
        f.write(xyz, cell_lengths=L if cell else None)
    elif ext == "xyz":
        f.write(xyz)
    elif ext == "lammpstrj":
        f.write(xyz, L, A)
    elif ext == "gro":
        box = None
        if cell:
            box = np.zeros((len(ids), 3, 3), dtype=np.float32)
            for i in range(3):
                box[:, i, i] = L[:, i]
        f.write(xyz, trajgen.topology(na), time=t if tim else None, unitcell_vectors=box)
    elif ext == "pdb":
        top = trajgen.topology(na)
        for k in range(len(ids)):
            f.write(xyz[k], top, modelIndex=ids[k], unitcell_lengths=L[k] if cell else None,
                    unitcell_angles=A[k] if cell else None)
    elif ext == "dtr":
        f.write(xyz, cell_lengths=L, cell_angles=A, times=t)
    else:
        raise RuntimeError(ext)


def _child(ext, hist, path, wfd, kill):
    import mdtraj as md

    def say(x):
        os.write(wfd, (json.dumps(x) + "\n").encode())
    f = md.open(path, "w")
    nxt = 0
    for st in hist:
        op = st["op"]
        if op == "write":
            ids = list(range(nxt, nxt + st["k"]))
            nxt += st["k"]
            try:
                _write(f, ext, ids, st["s"])
                say(["ok"])
            except Exception as e:  # noqa
                say(["refused", type(e).__name__])
        elif op == "flush":
            if hasattr(f, "flush"):
                f.flush()
            say(["ok"])
        elif op == "close":
            f.close()
            say(["ok"])
        elif op == "reopen":
            f = md.open(path, "a")
            say(["ok"])
        elif op == "crash":
            say(["crash"])
            if kill:
                _time.sleep(60)
            os._exit(0)
    os._exit(0)


def _load(path, ext, na):
    import mdtraj as md
    if ext in ("h5", "pdb", "gro"):
        return md.load(path)
    return md.load(path, top=trajgen.topology(na))


def _replay(task):
    ext, b, kill, tag = task
    hist = b["hist"]
    _ALT[0] = (len(json.dumps(hist)) + len(ext)) % 2 == 1 and ext != "mdcrd"     # the "other" atom count is 12 atoms or a single atom
    #                                              (not for mdcrd: a one-atom frame line cannot be told from a box line, see C01)
    d = os.path.join(_dir, "%d-%s" % (os.getpid(), tag))
    os.makedirs(d, exist_ok=True)
    path = os.path.join(d, "w." + ext)
    ref = os.path.join(d, "ref." + ext)
    trajgen.rm(path); trajgen.rm(ref)
    r, w = os.pipe()
    pid = os.fork()
    if pid == 0:
        os.close(r)
        try:
            _child(ext, hist, path, w, kill)
        except BaseException as e:  # noqa
            try:
                os.write(w, (json.dumps(["childerror", "%s: %s" % (type(e).__name__, e)]) + "\n").encode())
            except Exception:
                pass
        os._exit(0)
    os.close(w)
    buf = b""
    lines = []
    t0 = _time.time()
    with os.fdopen(r, "rb", buffering=0) as rf:
        while True:
            chunk = rf.read(4096)
            if not chunk:
                break
            buf += chunk
            while b"\n" in buf:
                ln, buf = buf.split(b"\n", 1)
                lines.append(json.loads(ln))
                if lines[-1][0] == "crash" and kill:
                    os.kill(pid, signal.SIGKILL)
            if _time.time() - t0 > 50:
                os.kill(pid, signal.SIGKILL)
                break
    os.waitpid(pid, 0)
    out = dict(steps=lines)
    problems = []
    # ---- per-step verdicts: accepted / refused as the specification says -----------------------------
    k = 0
    first_s = None
    for st, got in zip(hist, lines):
        if got[0] == "childerror":
            problems.append("child error at %s: %s" % (st["op"], got[1]))
            break
        if st["op"] == "write":
            if st["ok"] and first_s is None:
                first_s = st["s"]
            if st["ok"] and got[0] != "ok":
                problems.append("well-formed write refused (%s)" % got[1])
            if not st["ok"] and got[0] == "ok":
                kind = ("atom count" if st["s"]["natoms"] != first_s["natoms"] else
                        ("%s cell" % ("add" if st["s"]["cell"] else "drop")) if st["s"]["cell"] != first_s["cell"] else
                        ("%s time" % ("add" if st["s"]["time"] else "drop")) if st["s"]["time"] != first_s["time"] else
                        ("%s another per-frame field" % ("add" if st["s"].get("extra") else "drop")))
                problems.append("ragged write accepted (%s)" % kind)
    if len(lines) < len(hist) and not problems:
        problems.append("child stopped after %d of %d steps" % (len(lines), len(hist)))
    # ---- what is on disk ---------------------------------------------------------------------------
    acc = list(b["acc"])
    if acc and first_s is not None:
        na = _natoms(first_s["natoms"])
        try:
            t = _load(path, ext, na)
            ids = trajgen.frame_ids(t.xyz)
            out["loaded"] = ids
        except Exception as e:  # noqa
            t = None
            ids = None
            out["loaded"] = "unloadable: %s" % type(e).__name__
        if b["status"] == "closed":
            if ids != acc:
                problems.append("after close the file does not hold exactly the accepted frames")
            else:
                # one-shot reference written through the same class
                import mdtraj as md
                f = md.open(ref, "w")
                _write(f, ext, acc, first_s)
                f.close()
                rt = _load(ref, ext, na)
                same = (np.array_equal(rt.xyz, t.xyz) and np.array_equal(rt.time, t.time)
                        and (rt.unitcell_lengths is None) == (t.unitcell_lengths is None)
                        and (rt.unitcell_lengths is None or (np.array_equal(rt.unitcell_lengths, t.unitcell_lengths)
                                                             and np.array_equal(rt.unitcell_angles, t.unitcell_angles))))
                if not same:
                    problems.append("incremental file differs from one-shot file (xyz/time/cell)")
        else:   # crashed: dur must be a prefix of what loads, which must be a prefix of acc
            lo = b["lo"]
            if ids is None:
                if lo > 0:
                    problems.append("flushed frames lost in crash: file unloadable, %d frames were durable" % lo)
            elif ids != acc[:len(ids)]:
                problems.append("crashed file holds frames that were never accepted: loaded %s, accepted %s" % (ids, acc))
            elif len(ids) < lo:
                problems.append("flushed frames lost in crash: loaded %s, durable prefix %s" % (ids, acc[:lo]))
    trajgen.rm(path); trajgen.rm(ref)
    if not problems:
        return None
    out["problems"] = problems
    return out


_dir = None


def _feature(b):
    ops = [s["op"] for s in b["hist"]]
    return (b["status"], "flush" in ops, "reopen" in ops, any(s["op"] == "write" and not s["ok"] for s in b["hist"]), min(len(ops), 6))


def run(ctx):
    global _dir
    _dir = os.path.join(ctx.scratch, "w")
    os.makedirs(_dir, exist_ok=True)
    mf, mw = (5, 3) if ctx.thorough else (3, 2)
    capsets = {}
    for ext, caps in FORMATS.items():
        capsets.setdefault(caps, []).append(ext)
    tasks = []
    emitted = {}
    for caps, exts in capsets.items():
        r = ctx.tlc("Writer", "Writer_%s.cfg" % "".join(_b(c)[0] for c in caps), workers=8,
                    cfg_text=CFG % dict(MaxFrames=mf, MaxWrite=mw, HasFlush=_b(caps[0]), CellOpt=_b(caps[1]), TimeOpt=_b(caps[2]),
                                        CanAppend=_b(caps[3]), Crashes=_b(caps[4]), ExtraOpt=_b(caps[5])))
        emitted[str(caps)] = len(r.tr)
        per = 1500 if not ctx.thorough else 12000
        for ext in exts:
            bs = r.tr if len(r.tr) <= per else stratified_sample(list(r.tr), _feature, per, ctx.rng)
            for i, b in enumerate(bs):
                tasks.append((ext, b, False, "%s%d" % (ext, i % 64)))
                if b["status"] == "crashed" and (ctx.thorough or i % 4 == 0):
                    tasks.append((ext, b, True, "%sk%d" % (ext, i % 64)))
    if ctx.replay:
        rp = json.load(open(ctx.replay))
        t = rp["first"]["detail"]["task"]
        tasks = [(t[0], t[1], t[2], "replay")]
    res = pool.run_tasks(_replay, tasks, workers=16, timeout=90, batch=8)
    nfail = 0
    for t, (st, val) in zip(tasks, res):
        if st == "ok" and val is None:
            continue
        nfail += 1
        if st != "ok":
            val = dict(problems=["%s: %s" % (st, str(val)[:300])])
        for pr in val["problems"][:1]:
            hist_s = " ; ".join("%s%s" % (s["op"], "(%d,%s)" % (s["k"], "".join(str(int(v)) for v in (s["s"]["natoms"], s["s"]["cell"], s["s"]["time"], s["s"].get("extra", False)))) if s["op"] == "write" else "") for s in t[1]["hist"])
            cls = "%s: %s" % (t[0], pr.split(":")[0] if pr.startswith(("flushed", "child", "crashed")) else pr)
            ctx.discrepancy(_known_key(ctx, t, val), "%s [%s]%s: %s (loaded=%s)" % (t[0], hist_s, " SIGKILL" if t[2] else "", pr, val.get("loaded")),
                            dict(task=[t[0], t[1], t[2]], observed=val), cls=cls)
    # ---- mdconvert ----
    n_conv = 0
    if not ctx.replay:
        cm = dict(MaxN=5, MaxChunk=4) if ctx.thorough else dict(MaxN=4, MaxChunk=3)
        rc = ctx.tlc("Convert", "Convert.cfg", workers=4, cfg_text=CONV_CFG % cm)
        try:
            _conv_prepare(ctx.scratch, cm["MaxN"])
        except Exception as e:  # noqa
            ctx.machinery_failure("cannot prepare conversion inputs: %r" % (e,))
        ctasks = [(c, ein, eout, 0) for c in rc.tr for ein in CONV_FORMATS for eout in CONV_FORMATS]
        if not ctx.thorough and len(ctasks) > 2500:
            ctasks = stratified_sample(ctasks, lambda t: (t[1], t[2], t[0]["index"], len(t[0]["ns"])), 2500, ctx.rng)
        ctasks = [(c, a, b, i) for i, (c, a, b, _) in enumerate(ctasks)]
        n_conv = len(ctasks)
        for tk, (st, val) in zip(ctasks, pool.run_tasks(_convert, ctasks, workers=16, timeout=120, batch=16)):
            if st == "ok" and val is None:
                continue
            nfail += 1
            msg = val if st == "ok" else "%s: %s" % (st, str(val)[:200])
            ckey = "mdconvert:trr_index_read_at_eof" if (tk[1] == "trr" and tk[0]["index"] != "none" and msg.startswith("mdconvert raised ValueError: need at least one array")) else None
            ctx.discrepancy(ckey, "mdconvert %s -> %s frames=%s chunk=%d stride=%d index=%s: %s" % (tk[1], tk[2], tk[0]["ns"], tk[0]["chunk"], tk[0]["stride"], tk[0]["index"], msg),
                            dict(conv=[tk[0], tk[1], tk[2]], problem=msg), cls="mdconvert %s->%s: %s" % (tk[1], tk[2], msg.split(" frames ")[0][:60]))
    samples = [dict(format=t[0], sigkill=t[2], behaviour=t[1]) for t in tasks[:: max(1, len(tasks) // 3)][:3]]
    def _nontrivial(t):
        ops = [x["op"] for x in t[1]["hist"]]
        return ops.count("write") >= 2 or "crash" in ops or "reopen" in ops or any(x["op"] == "write" and not x["ok"] for x in t[1]["hist"])
    distinct = len(set((t[0], t[2], json.dumps(t[1]["hist"], sort_keys=True)) for t in tasks if _nontrivial(t)))
    cov = dict(evaluations=len(tasks), distinct_nontrivial=distinct,
               rule="cases = (format, terminal behaviour of Writer.tla, kill mode), enumerated by TLC (all behaviours within the bounds; a stratified "
                    "sample per format in the quick tier); non-trivial = at least two writes, or a refused (ragged) write, or a crash point, or a "
                    "close+reopen-append; distinct = different (format, kill mode, operation history)",
               traces_validated_against_impl=len(tasks) + n_conv, mdconvert_runs=n_conv, replays_failing=nfail, emitted_behaviours=emitted,
               crash_runs=sum(1 for t in tasks if t[1]["status"] == "crashed"), sigkill_runs=sum(1 for t in tasks if t[2]),
               formats=sorted(FORMATS), MaxFrames=mf, MaxWrite=mw, samples=samples,
               explanation="every terminal behaviour (ordered partition of the frames into writes x one ragged write of each kind x "
                           "flush placement x crash point / close / reopen-append) of Writer.tla is executed by a forked child on the real "
                           "file class; the parent loads the file and compares with the accepted frames, a one-shot reference file, and the durable prefix")
    return ctx.finish(cov, "fault_enumeration",
                      ["crash = abrupt termination of the writing process (os._exit / SIGKILL); power loss and kernel page-cache loss are not modelled",
                       "durability is asserted only for h5, nc, dcd, xtc (the live-output formats the property names)"])


def _known_key(ctx, t, val):
    """a failure is a known finding only if it is exactly the listed (format, problem kind)"""
    pr = val["problems"][0]
    for key in ctx.open_findings:
        ext, kind = key.split(":", 1)
        if ext == t[0] and pr.startswith(kind) and len(val["problems"]) == 1:
            return key
    return None
