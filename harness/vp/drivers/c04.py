"""C04 — topology transformations preserve atoms, residues, chains and bonds.
spec: specs/Topology.tla.  Binding: transition-coverage replay through the real API (copy, deepcopy, pickle, subset,
join, data-frame round trip, HDF5 and PDB files, edits); projection = nested value + identity graph + ==/hash."""
import copy as _copy
import json
import os
import pickle
import re
import zlib

import numpy as np

from .. import pool
from ..core import stratified_sample

CFG = """SPECIFICATION Spec
CONSTANTS Obj = {%(obj)s}
 D = %(D)d
 Dev = {%(dev)s}
 Family = {%(family)s}
 KeepFamily = {%(keep)s}
INVARIANT CopyPreserves
INVARIANT Contiguous
INVARIANT BondsOwnAtoms
INVARIANT Disjoint
INVARIANT SubsetBonds
PROPERTY Independent
VIEW View
ACTION_CONSTRAINT Emit
CHECK_DEADLOCK FALSE
"""
_env = {}
BT = {"single": 1.0, "double": 2.0, "triple": 3.0, "amide": 1.25, "aromatic": 1.5}


def _bond_type(name):
    from mdtraj.core import topology as T
    return {"single": T.Single, "double": T.Double, "triple": T.Triple, "amide": T.Amide, "aromatic": T.Aromatic, "none": None}[name]


def _t0():
    import mdtraj as md
    from mdtraj.core import element
    top = md.Topology()
    cx = top.add_chain("X")
    cy = top.add_chain("Y")
    r1 = top.add_residue("ALA", cx, resSeq=7, segment_id="S1")
    r2 = top.add_residue("GLY", cx, resSeq=7, segment_id="S1")
    r3 = top.add_residue("GLY", cy, resSeq=7, segment_id="S2")     # same name and number as the last residue of chain X
    a = [top.add_atom("N", element.nitrogen, r1, serial=10), top.add_atom("CA", element.carbon, r1, serial=12),
         top.add_atom("CA", element.carbon, r2, serial=20), top.add_atom("O", element.oxygen, r3, serial=31),
         top.add_atom("OM", element.virtual_site, r3, serial=32)]
    top.add_bond(a[0], a[1], type=_bond_type("single"), order=1)
    top.add_bond(a[1], a[2], type=_bond_type("amide"), order=None)
    top.add_bond(a[2], a[3], type=_bond_type("double"), order=2)
    top.add_bond(a[3], a[4], type=None, order=None)
    return top


def _el(e):
    if e is None:
        return "none"
    return "VS" if e.symbol == "VS" else e.symbol


def _tyname(t):
    if t is None:
        return "none"
    f = float(t)
    for k, v in BT.items():
        if abs(v - f) < 1e-9:
            return k
    return "other"


def alpha(top):
    """projection of a real Topology onto the specification's Value record (read through public iterators)"""
    chains = []
    for c in top.chains:
        res = []
        for r in c.residues:
            res.append(dict(name=r.name, resSeq=r.resSeq, seg=r.segment_id or "",
                            atoms=[dict(name=a.name, el=_el(a.element), serial=a.serial or 0) for a in r.atoms]))
        chains.append(dict(cid=c.chain_id or "", res=res))
    bonds = sorted((min(b[0].index, b[1].index), max(b[0].index, b[1].index), _tyname(b.type), b.order or 0) for b in top.bonds)
    return dict(chains=chains, index=[a.index for a in top.atoms], bonds=[list(b) for b in bonds])


def _spec_value(p):
    bonds = sorted((min(b["a"], b["b"]), max(b["a"], b["b"]), b["ty"], b["ord"]) for b in p["bonds"])
    return dict(chains=p["chains"], index=list(p["index"]), bonds=[list(b) for b in bonds])


def _diff(real, spec, skip_bonds=False):
    out = []
    if real["index"] != spec["index"]:
        out.append("atom indices not contiguous/renumbered")
    rc, sc = real["chains"], spec["chains"]
    if [len(c["res"]) for c in rc] != [len(c["res"]) for c in sc] or \
            [[len(r["atoms"]) for r in c["res"]] for c in rc] != [[len(r["atoms"]) for r in c["res"]] for c in sc]:
        out.append("chain/residue/atom structure")
    else:
        if any(b["cid"] != "?" and a["cid"] != b["cid"] for a, b in zip(rc, sc)):
            out.append("chain id")
        for fld, nm in (("name", "residue name"), ("resSeq", "resSeq"), ("seg", "segment id")):
            if [[r[fld] for r in c["res"]] for c in rc] != [[r[fld] for r in c["res"]] for c in sc]:
                out.append(nm)
        for fld, nm in (("name", "atom name"), ("el", "element"), ("serial", "serial")):
            if [[[a[fld] for a in r["atoms"]] for r in c["res"]] for c in rc] != [[[a[fld] for a in r["atoms"]] for r in c["res"]] for c in sc]:
                out.append(nm)
    if not skip_bonds:
        if [b[:2] for b in real["bonds"]] != [b[:2] for b in spec["bonds"]]:
            out.append("bond graph")
        elif real["bonds"] != spec["bonds"]:
            out.append("bond type/order")
    return out


def _identity_problems(objs):
    """bonds must refer to the topology's own Atom objects; live topologies share no Atom/Residue/Chain objects"""
    for k, t in objs.items():
        own = set(id(a) for a in t.atoms)
        for b in t.bonds:
            if id(b[0]) not in own or id(b[1]) not in own:
                return "bonds of object %d refer to Atom objects of another topology" % k
        if t.n_atoms != len(list(t.atoms)) or t.n_residues != len(list(t.residues)):
            return "counters n_atoms/n_residues disagree with the lists"
    ks = sorted(objs)
    for i in range(len(ks)):
        for j in range(i + 1, len(ks)):
            a = set(id(x) for x in objs[ks[i]].atoms) | set(id(x) for x in objs[ks[i]].residues) | set(id(x) for x in objs[ks[i]].chains)
            b = set(id(x) for x in objs[ks[j]].atoms) | set(id(x) for x in objs[ks[j]].residues) | set(id(x) for x in objs[ks[j]].chains)
            if a & b:
                return "objects %d and %d share Atom/Residue/Chain objects" % (ks[i], ks[j])
    return None


def _via_file(t, ext):
    import mdtraj as md
    xyz = np.zeros((1, t.n_atoms, 3), dtype=np.float32)
    xyz[0, :, 0] = np.arange(t.n_atoms) * 0.15
    tr = md.Trajectory(xyz, t)
    p = os.path.join(_env["dir"], "c04-%d.%s" % (os.getpid(), ext))
    tr.save(p)
    how = _env.get("reader", 0) % 4
    if ext == "h5" and how == 1:
        back = md.load_hdf5(p).topology
    elif ext == "h5" and how == 2:
        with md.open(p) as f:
            back = f.topology
    elif how == 3:
        back = md.load_frame(p, 0).topology
    else:
        back = md.load(p).topology
    os.unlink(p)
    return back


def _replay(task):
    import mdtraj as md
    tr, variant = task
    _env["reader"] = variant
    objs = {1: _t0()}
    edited = set()
    hist = tr["hist"]
    for k, s in enumerate(hist):
        op, x, y, dst, arg = s["op"], s["x"], s["y"], s["dst"], s["arg"]
        last = k == len(hist) - 1
        before = {i: alpha(t) for i, t in objs.items()}
        try:
            if op == "copy":
                objs[dst] = objs[x].copy()
            elif op == "deepcopy":
                objs[dst] = _copy.deepcopy(objs[x]) if variant % 2 else _copy.copy(objs[x])
            elif op == "pickle":
                objs[dst] = pickle.loads(pickle.dumps(objs[x]))
            elif op == "subset":
                if variant % 3 == 2:
                    xyz = np.zeros((2, objs[x].n_atoms, 3), dtype=np.float32)
                    objs[dst] = md.Trajectory(xyz, objs[x]).atom_slice(list(arg)).topology
                else:
                    objs[dst] = objs[x].subset(list(arg) if variant % 3 else np.array(arg))
            elif op == "join":
                if variant % 3 == 2 and arg[0] == 1:
                    t1 = md.Trajectory(np.zeros((1, objs[x].n_atoms, 3), dtype=np.float32), objs[x])
                    t2 = md.Trajectory(np.zeros((1, objs[y].n_atoms, 3), dtype=np.float32), objs[y])
                    objs[dst] = t1.stack(t2).topology
                else:
                    objs[dst] = objs[x].join(objs[y], keep_resSeq=bool(arg[0]))
            elif op == "dataframe":
                df, bonds = objs[x].to_dataframe()
                objs[dst] = md.Topology.from_dataframe(df, bonds)
            elif op == "hdf5":
                objs[dst] = _via_file(objs[x], "h5")
            elif op == "pdb":
                objs[dst] = _via_file(objs[x], "pdb")
            elif op == "delete_atom":
                hash(objs[x])
                twin = _twin(objs[x])
                objs[x].delete_atom_by_index(arg[0])
                if twin is not None:
                    twin.delete_atom_by_index(arg[0])
            elif op == "add_bond":
                hash(objs[x])
                twin = _twin(objs[x])
                objs[x].add_bond(objs[x].atom(arg[0]), objs[x].atom(arg[1]), type=_bond_type("triple"), order=3)
                if twin is not None:
                    twin.add_bond(twin.atom(arg[0]), twin.atom(arg[1]), type=_bond_type("triple"), order=3)
        except Exception as e:  # noqa
            return dict(step=k, problems=["%s raised %s: %s" % (op, type(e).__name__, str(e)[:120])])
        if op in ("delete_atom", "add_bond"):
            # independence: no OTHER topology's value may change (the edited one is not constrained here)
            for i, t in objs.items():
                if i != x and alpha(t) != before[i]:
                    return dict(step=k, problems=["editing object %d (%s) changed the value of object %d" % (x, op, i)])
        if op in ("delete_atom", "add_bond"):
            edited.add(x)
            # whatever the edit did to the value, the == => hash law holds for the edited object too (it was hashed before the edit)
            # (the comparison object is a deep copy taken BEFORE the edit that received the same edit: copying an edited topology is
            #  outside the property)
            try:
                if twin is not None and objs[x] == twin and hash(objs[x]) != hash(twin):
                    return dict(step=k, problems=["after %s object %d compares equal to a twin that received the same edit but hashes differently" % (op, x)])
            except Exception:  # noqa
                pass
        for t_ in objs.values():          # every live object is hashed at every point of the history
            try:
                hash(t_)
            except Exception:  # noqa
                pass
        if op not in ("delete_atom", "add_bond") and dst in edited:
            edited.discard(dst)          # the slot now holds a fresh object
        if not last:
            continue
        probs = []
        for i, t in objs.items():
            if i in edited:
                continue       # an edited topology is a probe: the property constrains the OTHER objects, not the edit itself
            sp = tr["post"][i - 1]
            if not sp["live"]:
                continue
            d = _diff(alpha(t), _spec_value(sp), skip_bonds=_pdb_derived(hist, i))
            if d:
                probs += ["%s lost/changed by %s (object %d)" % (f, op if i == dst else "history", i) for f in d]
        if op not in ("delete_atom", "add_bond"):
            ip = _identity_problems({i: t for i, t in objs.items() if i not in edited})
            if ip:
                probs.append(ip)
            # equality and hash: value-preserving transformations give a topology that compares and hashes equal
            for i in objs:
                for j in objs:
                    if i < j and i not in edited and j not in edited:
                        try:
                            eq = objs[i] == objs[j]
                            if eq and hash(objs[i]) != hash(objs[j]):
                                probs.append("objects %d and %d compare equal but hash differently" % (i, j))
                            if op in ("copy", "deepcopy", "pickle") and {i, j} == {x, dst} and not eq:
                                probs.append("%s does not compare equal to its source" % op)
                        except Exception as e:  # noqa
                            probs.append("==/hash raised %s" % type(e).__name__)
        if probs:
            return dict(step=k, problems=sorted(set(probs)))
    return None


def _scrambled_order_checks(_):
    """Topologies whose atom index order differs from the chain -> residue -> atom traversal order (atoms added to the residues in
    turns): copy, deepcopy, pickle, join and subset(all) must preserve the bond graph WITH types and orders, atom by atom."""
    import copy, pickle
    import mdtraj as md
    from mdtraj.core import element as E
    probs = []
    for variant in range(6):
        top = md.Topology()
        ca = top.add_chain("P"); cb = top.add_chain("Q")
        rs_ = [top.add_residue("ALA", ca, resSeq=3), top.add_residue("GLY", ca, resSeq=4), top.add_residue("LIG", cb, resSeq=9)]
        order = [(0, "N"), (1, "N"), (2, "X1"), (0, "CA"), (1, "CA"), (0, "CB"), (2, "X2"), (1, "C")]
        if variant % 2:
            order = order[::-1]
        if variant % 3 == 2:
            order = order[3:] + order[:3]
        atoms = {}
        for ri, nm in order:
            atoms[(ri, nm)] = top.add_atom(nm, E.get_by_symbol("C" if nm[0] in "CX" else "N"), rs_[ri], serial=100 + 7 * len(atoms))
        bl = [((0, "N"), (0, "CA"), "single", 1), ((0, "CA"), (0, "CB"), "double", 2), ((0, "CA"), (1, "N"), "amide", None), ((1, "N"), (1, "CA"), None, None),
              ((1, "CA"), (1, "C"), "aromatic", None), ((2, "X1"), (2, "X2"), "triple", 3), ((0, "CB"), (2, "X1"), None, 1)]
        for a, b, ty, od in bl:
            top.add_bond(atoms[a], atoms[b], type=_bond_type(ty) if ty else None, order=od)

        def graph(t, shift_chain=0):
            out = set()
            for bnd in t.bonds:
                ends = frozenset((x.residue.chain.index - shift_chain, x.residue.resSeq, x.name) for x in (bnd[0], bnd[1]))
                out.add((ends, str(bnd.type), bnd.order))
            return out
        want = graph(top)
        for how, f in (("copy", lambda t: t.copy()), ("deepcopy", copy.deepcopy), ("pickle", lambda t: pickle.loads(pickle.dumps(t))),
                       ("subset(all)", lambda t: t.subset(list(range(t.n_atoms))))):
            try:
                got = graph(f(top))
            except Exception as e:  # noqa
                probs.append("%s of a topology with scrambled atom order raised %s" % (how, type(e).__name__)); continue
            if got != want:
                probs.append("%s of a topology whose index order differs from its residue order changes the bond graph (variant %d)" % (how, variant))
        try:
            j = top.join(top.copy())
            first = {g for g in graph(j) if all(e[0] < 2 for e in g[0])}
            second = {(frozenset((c - 2, r, nm) for c, r, nm in g[0]), g[1], g[2]) for g in graph(j) if all(e[0] >= 2 for e in g[0])}
            if first != want or second != want:
                probs.append("join of topologies whose index order differs from their residue order changes the bond graph (variant %d)" % variant)
        except Exception as e:  # noqa
            probs.append("join of a topology with scrambled atom order raised %s" % type(e).__name__)
    return probs or None


def _twin(t):
    import copy
    try:
        return copy.deepcopy(t)
    except Exception:  # noqa
        return None


def _pdb_derived(hist, i):
    """the PDB reader re-creates standard-residue bonds from templates: the bond list of anything that went through a
    PDB file is not specified (Topology.tla, Cap("pdb").bonds = FALSE)"""
    src = {i}
    for s in reversed(hist):
        if s["dst"] in src and s["op"] not in ("delete_atom", "add_bond"):
            if s["op"] == "pdb":
                return True
            src.add(s["x"])
            if s["y"]:
                src.add(s["y"])
    return False


def _feat(t):
    return tuple(s["op"] for s in t["hist"])


ALL_OPS = '"copy", "deepcopy", "pickle", "subset", "join", "dataframe", "hdf5", "pdb", "delete_atom", "add_bond"'
CARRIER_OPS = '"copy", "dataframe", "hdf5", "pdb", "delete_atom", "add_bond"'


def _emit(ctx, obj, D, dev, keep="", family=ALL_OPS):
    r = ctx.tlc("Topology", "Topology_%s_D%d_%s_%d.cfg" % (obj.replace(",", ""), D, "dev" if dev else "ideal", len(family)), workers=16, timeout=2400,
                must_pass=not dev, cfg_text=CFG % dict(obj=obj, D=D, dev=", ".join('"%s"' % d for d in dev), keep=keep, family=family))
    return r.tr


def run(ctx):
    _env["dir"] = ctx.scratch
    FAM = "{0}, {4}, {1, 2}, {2, 3, 4}, {0, 1, 3}, {0, 1, 2, 3, 4}"
    # (objects, depth, subset family, operation family); the depth-3 carrier plan reaches "load, edit the result, load again"
    plans = [("1,2,3", 2, FAM, ALL_OPS), ("1,2,3", 3, FAM, CARRIER_OPS)] if not ctx.thorough else [("1,2,3", 2, "", ALL_OPS), ("1,2", 3, "", ALL_OPS), ("1,2,3", 3, FAM, CARRIER_OPS)]
    tests = []
    for obj, D, fam, ops in plans:
        got = _emit(ctx, obj, D, [], fam, ops)
        if not ctx.thorough and len(got) > 30000:
            got = stratified_sample(got, _feat, 30000, ctx.rng)
        elif ctx.thorough and len(got) > 400000:
            got = stratified_sample(got, _feat, 400000, ctx.rng)
        tests += got
    tasks = [(t, zlib.crc32(json.dumps(t["hist"]).encode()) % 1000) for t in tests]
    if ctx.replay:
        rp = json.load(open(ctx.replay))
        tasks = [tuple(rp["first"]["detail"]["task"])]
    # histories that go through a file carrier run in a fresh process each: process-global state of a reader (caches) must not be
    # able to hide behind what earlier tests in the same worker happened to load
    isolated = [i for i, t in enumerate(tasks) if sum(1 for s in t[0]["hist"] if s["op"] in ("hdf5", "pdb")) >= 2]
    iso = set(isolated)
    res = [None] * len(tasks)
    shared = [i for i in range(len(tasks)) if i not in iso]
    for i, r in zip(shared, pool.run_tasks(_replay, [tasks[i] for i in shared], workers=16, timeout=60, batch=32)):
        res[i] = r
    for i, r in zip(isolated, pool.run_tasks(_replay, [tasks[i] for i in isolated], workers=16, timeout=60, batch=1, fresh=True)):
        res[i] = r
    fails = []
    for t, (st, val) in zip(tasks, res):
        if st == "ok" and val is None:
            continue
        if st != "ok":
            val = dict(step=-1, problems=["%s: %s" % (st, str(val)[:200])])
        fails.append((t, val))
    # ---- triage: carrier losses recorded as known findings must be reproduced exactly by the deviation-enabled specification:
    # the failing histories are re-evaluated deterministically by TopologyEval.tla with Dev switched on ------------------------
    devs = sorted(set(k.split(":", 1)[1] for k in ctx.open_findings))
    dev_post = {}
    if fails and devs:
        tf = os.path.join(ctx.scratch, "topo-eval.json")
        json.dump({"recs": [dict(id=n, hist=t[0]["hist"]) for n, (t, _) in enumerate(fails)]}, open(tf, "w"))
        cfg = ("SPECIFICATION ESpec\nCONSTANTS Obj = {1,2,3}\n D = 9\n Dev = {%s}\n Family = {%s}\n KeepFamily = {}\nCHECK_DEADLOCK FALSE\n"
               % (", ".join('"%s"' % d for d in devs), ALL_OPS))
        r = ctx.tlc("TopologyEval", "TopologyEval.cfg", must_pass=False, workers=1, cfg_text=cfg, env={"TRACE_FILE": tf}, timeout=2400)
        for line in r.prints:
            m = re.match(r'<<"POST", (\d+), "(.*)">>$', line, re.S)
            if m:
                dev_post[int(m.group(1))] = json.loads(json.loads('"' + m.group(2) + '"'))
    t2s = []
    for n, (t, val) in enumerate(fails):
        if n in dev_post:
            t2 = dict(t[0]); t2["post"] = dev_post[n]
            t2s.append((n, (t2, t[1])))
    again = dict(zip([n for n, _ in t2s], pool.run_tasks(_replay, [x for _, x in t2s], workers=16, timeout=60, batch=16))) if t2s else {}
    FLD = {"df_drops_chain_id": ("dataframe", "chain id"), "h5_drops_chain_id": ("hdf5", "chain id"),
           "h5_drops_serial": ("hdf5", "serial"), "pdb_renumbers_serial": ("pdb", "serial")}
    for n, (t, val) in enumerate(fails):
        key = None
        st2, v2 = again.get(n, ("no", "no"))
        if st2 == "ok" and v2 is None:
            for pr in val["problems"]:
                for dv in devs:
                    fld = FLD[dv]
                    if fld[1] in pr and any(s["op"] == fld[0] for s in t[0]["hist"]):
                        key = key or "%s:%s" % (fld[0], dv)
        hs = " ; ".join("%s(%s)" % (s["op"], ",".join(str(v) for v in (s["x"], s["y"], s["dst"], s["arg"]))) for s in t[0]["hist"])
        ctx.discrepancy(key, "[%s] -> %s" % (hs, "; ".join(val["problems"])[:300]), dict(task=[t[0], t[1]], observed=val),
                        cls="%s" % (val["problems"][0][:90]))
    (st_, sc), = pool.run_tasks(_scrambled_order_checks, [0], workers=1, batch=1, timeout=120)
    for msg in (sc if st_ == "ok" and sc else ([] if st_ == "ok" else ["%s: %s" % (st_, str(sc)[:200])])):
        ctx.discrepancy(None, msg, dict(task=[tasks[0][0], tasks[0][1]] if tasks else None), cls="scrambled atom order: " + msg.split(" of ")[0][:40])
    samples = [t[0]["hist"] for t in tasks[:: max(1, len(tasks) // 3)][:3]]
    cov = dict(traces_validated_against_impl=len(tasks), replays_failing=len(fails), plans=plans, samples=samples,
               explanation="every transition of Topology.tla (copy/deepcopy/pickle, every atom subset, join with and without keep_resSeq, data-frame, HDF5 and PDB "
                           "round trips, then delete_atom_by_index / add_bond probes on either side) replayed through the real API; the nested value read through public "
                           "iterators is compared field by field, bonds must point at the topology's own Atom objects, no objects shared, == and hash consistent")
    return ctx.finish(cov, "model_checking", ["one starting topology with 2 chains, repeated resSeq, non-contiguous serials, a virtual site, typed bonds across residues and chains",
                                              "bond lists of topologies that went through a PDB file are not compared (template bonds are re-created on load)"])
