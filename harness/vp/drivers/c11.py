"""C11 — re-imaging moves atoms only by lattice vectors and makes molecules whole.
spec: specs/Reimage.tla (+ IntVec).  Binding: every emitted (cell, scrambled molecule, atom labelling, bond orientation)
case replayed through Trajectory.make_molecules_whole and Trajectory.image_molecules."""
import json

import numpy as np

from .. import pool
from ..core import stratified_sample

G = 0.125
CFG = """SPECIFICATION Spec
CONSTANTS Order = "%(order)s"
 NShift = %(ns)d
INVARIANT LatticeMoves
INVARIANT BondsWhole
INVARIANT ObservablesKept
%(emit)s
CHECK_DEADLOCK FALSE
"""
WATER = np.array([[0, 0, 0], [1, 0, 0], [0, 1, 0]])


def _build(case, seed, top=None, defer=False):
    import mdtraj as md
    rs = np.random.RandomState(seed)
    cell = np.array(case["cell"], dtype=float)
    top = md.Topology() if top is None else top
    ch = top.add_chain()
    rev = bool(case["walk"]) and case["walk"][0][0] > case["walk"][0][1]
    where = seed % 4          # the ligand comes before, between or after the two waters, or (3) its atoms are INTERLEAVED with a water's
    orgs = [np.floor(rs.rand(3) @ cell) + rs.randint(-2, 3, size=3) @ cell for _ in range(2)]
    wshift = [[rs.randint(-1, 2, size=3) @ cell for _ in range(3)] for _ in range(2)]
    # creation order of the atoms: ("L", k) ligand atom k, ("W", w, k) atom k of water w
    if where == 3:
        order = [("L", 0), ("W", 0, 0), ("L", 1), ("W", 0, 1), ("L", 2), ("W", 0, 2), ("L", 3)] + [("W", 1, k) for k in range(3)]
    else:
        blocks = [[("W", 0, k) for k in range(3)], [("W", 1, k) for k in range(3)]]
        blocks.insert(where, [("L", k) for k in range(4)])
        order = [x for blk in blocks for x in blk]
    resobj = {}
    atoms = {}
    pos = []
    for item in order:
        key = item[:1] if item[0] == "L" else item[:2]
        if key not in resobj:
            resobj[key] = top.add_residue("LIG" if item[0] == "L" else "HOH", ch)
        if item[0] == "L":
            atoms[item] = top.add_atom("C%d" % item[1], md.element.carbon, resobj[key])
            pos.append(np.array(case["pos0"][item[1]], dtype=float))
        else:
            nm = ("O", "H1", "H2")[item[2]]
            atoms[item] = top.add_atom(nm, md.element.oxygen if nm == "O" else md.element.hydrogen, resobj[key])
            pos.append(orgs[item[1]] + WATER[item[2]] + wshift[item[1]][item[2]])
    lig = [atoms[("L", k)].index for k in range(4)]
    deferred = None
    for bi, bnd in enumerate(case["bonds"]):
        i, j = bnd[0] - 1, bnd[1] - 1
        if (seed + i + j) % 2 or rev:
            i, j = j, i
        if defer and bi == len(case["bonds"]) - 1:
            deferred = (atoms[("L", i)], atoms[("L", j)])           # added in place later, after a first round of re-imaging
        else:
            top.add_bond(atoms[("L", i)], atoms[("L", j)])
    for w in range(2):
        top.add_bond(atoms[("W", w, 0)], atoms[("W", w, 1)]); top.add_bond(atoms[("W", w, 0)], atoms[("W", w, 2)])
    ligres = resobj[("L",)].index
    pos = np.array(pos)
    nfr = 2
    xyz = np.stack([pos, pos + (rs.randint(-1, 2, size=(len(pos), 3)) @ cell)]) * G
    t = md.Trajectory(xyz.astype(np.float32), top, time=np.array([3.0, 4.5]))
    t.unitcell_vectors = np.stack([cell * G] * nfr).astype(np.float32)
    return t, cell, lig, ligres, deferred


def _lattice_coefs(delta_units, cell):
    return np.linalg.solve(cell.T, delta_units.T).T


def _replay(task):
    import mdtraj as md
    case, seed = task[0], task[1]
    t, cell, lig, where, deferred = _build(case, seed, task[2] if len(task) > 2 else None, defer=(seed % 4 == 1))
    if deferred is not None:
        # object history: the trajectory is re-imaged once while the ligand is still two fragments, then the missing bond is added to
        # its topology IN PLACE; everything below must see the molecule as it is now
        try:
            t.make_molecules_whole(inplace=False)
            t.image_molecules(inplace=False, make_whole=True, anchor_molecules=[set(t.topology.residue(where).atoms)])
        except Exception:  # noqa
            pass
        t.topology.add_bond(*deferred)
    bonds = np.array([[b[0].index, b[1].index] for b in t.topology.bonds])
    x0 = t.xyz.copy(); L0 = t.unitcell_lengths.copy(); A0 = t.unitcell_angles.copy(); T0 = t.time.copy()
    allpairs = np.array([(i, j) for i in range(t.n_atoms) for j in range(i + 1, t.n_atoms)])
    d_before = md.compute_distances(t, allpairs, periodic=True)
    mind = {}
    for b, m in zip(case["bonds"], case["mind2"]):
        mind[tuple(sorted((lig[b[0] - 1], lig[b[1] - 1])))] = m
    # ---------------- make_molecules_whole ------------------------------------------------------------
    try:
        w = t.make_molecules_whole(inplace=False)
    except Exception as e:  # noqa
        return "make_molecules_whole raised %s: %s" % (type(e).__name__, str(e)[:80])
    if w is t or np.shares_memory(w.xyz, t.xyz):
        return "make_molecules_whole(inplace=False) returned/aliased its input"
    if not (np.array_equal(t.xyz, x0) and np.array_equal(t.unitcell_lengths, L0) and np.array_equal(t.time, T0)):
        return "make_molecules_whole(inplace=False) modified its input"
    if not (np.array_equal(w.unitcell_lengths, L0) and np.array_equal(w.unitcell_angles, A0) and np.array_equal(w.time, T0)):
        return "make_molecules_whole changed unit cell or time"
    for f in range(t.n_frames):
        coef = _lattice_coefs((w.xyz[f].astype(np.float64) - x0[f]) / G, cell)
        if np.abs(coef - np.round(coef)).max() > 2e-3:
            return "make_molecules_whole moved an atom by something that is not a lattice vector"
        for (i, j) in bonds:
            d2 = ((w.xyz[f, i].astype(np.float64) - w.xyz[f, j]) ** 2).sum() / G ** 2
            key = (min(i, j), max(i, j))
            exp = mind.get(key)
            if exp is None:   # water bonds: template distance 1
                exp = 1
            if abs(d2 - exp) > 2e-3 * (1 + exp):
                return "make_molecules_whole left a bonded pair apart (bond %d-%d: d2=%.3f, minimum image %d)" % (i, j, d2, exp)
    d_after = md.compute_distances(w, allpairs, periodic=True)
    if not np.allclose(d_before, d_after, atol=2e-5):
        return "make_molecules_whole changed a minimum-image distance"
    ti = md.Trajectory(x0.copy(), t.topology, time=T0.copy(), unitcell_lengths=L0.copy(), unitcell_angles=A0.copy())
    r = ti.make_molecules_whole(inplace=True)
    if r is not ti or not np.allclose(ti.xyz, w.xyz, atol=1e-6):
        return "make_molecules_whole(inplace=True) differs from the copy variant"
    # ---------------- image_molecules ----------------------------------------------------------------
    mols = t.topology.find_molecules()
    lig = [set(list(t.topology.residue(where).atoms))]
    variants = [(True, lig), (False, lig)]
    try:
        t.topology.guess_anchor_molecules()
        variants.append((True, None))
    except ValueError:
        pass        # no molecule is large enough for the heuristic: guessed anchors are legitimately refused
    for make_whole, anchors in variants:
        try:
            im = t.image_molecules(inplace=False, make_whole=make_whole, anchor_molecules=anchors)
        except Exception as e:  # noqa
            return "image_molecules raised %s: %s" % (type(e).__name__, str(e)[:80])
        if not np.array_equal(t.xyz, x0):
            return "image_molecules(inplace=False) modified its input"
        if not (np.array_equal(im.unitcell_lengths, L0) and np.array_equal(im.time, T0)):
            return "image_molecules changed unit cell or time"
        for f in range(t.n_frames):
            coef = _lattice_coefs((im.xyz[f].astype(np.float64) - x0[f]) / G, cell)
            frac = coef - np.round(coef - coef[0])          # one common translation: all atoms share the fractional part
            if np.abs(frac - frac[0]).max() > 3e-3:
                return "image_molecules: moves are not lattice vectors plus one common translation"
            if not make_whole:
                for mol in mols:
                    idx = [a.index for a in mol]
                    mv = im.xyz[f, idx].astype(np.float64) - x0[f, idx]
                    if np.abs(mv - mv[0]).max() > 2e-5:
                        return "image_molecules(make_whole=False) did not move a molecule as a unit"
            else:
                for (i, j) in bonds:
                    d2 = ((im.xyz[f, i].astype(np.float64) - im.xyz[f, j]) ** 2).sum() / G ** 2
                    exp = mind.get((min(i, j), max(i, j)), 1)
                    if abs(d2 - exp) > 2e-3 * (1 + exp):
                        return "image_molecules(make_whole=True) left a bonded pair apart"
        if not np.allclose(d_before, md.compute_distances(im, allpairs, periodic=True), atol=3e-5):
            return "image_molecules changed a minimum-image distance"
    return None


MOL_CFG = """SPECIFICATION Spec
CONSTANT N = 5
INVARIANT Partition
INVARIANT Closed
ACTION_CONSTRAINT Emit
CHECK_DEADLOCK FALSE
"""


def _molecules(rec):
    """Topology.find_molecules on the bond graph: exactly the connected components (specs/Molecules.tla)"""
    import mdtraj as md
    n = 5
    top = md.Topology(); ch = top.add_chain()
    k = len(rec["bonds"])
    res = [top.add_residue("X", ch) for _ in range(1 + k % 3)]
    atoms = [top.add_atom("C%d" % i, md.element.carbon, res[(i * (k + 1)) % len(res)]) for i in range(n)]
    for i, j in rec["bonds"]:
        if (i + j + k) % 2:
            i, j = j, i
        top.add_bond(atoms[i], atoms[j])
    try:
        got = sorted(sorted(a.index for a in m) for m in top.find_molecules())
    except ValueError:
        if not rec["bonds"] and any(r.n_atoms > 1 for r in top.residues):
            return None          # documented refusal: no bonds at all although some residue has several atoms
        return "find_molecules raised ValueError"
    except Exception as e:  # noqa
        return "find_molecules raised %s" % type(e).__name__
    want = sorted(sorted(c) for c in rec["comps"])
    if got != want:
        return "find_molecules returns %s, the connected components of the bond graph are %s" % (got, want)
    return None


def _history(tasks):
    """a history of systems re-imaged one after the other in one process, each Topology allocated where an earlier, freed one
    lived (same address, same atom and bond counts, different connectivity): the result must depend on the argument only"""
    import gc
    import mdtraj as md
    seen = set()
    out = []
    reused = 0
    for k, (case, seed) in enumerate(tasks):
        top = None
        hold = []
        for _ in range(64):
            cand = md.Topology()
            if id(cand) in seen:
                top = cand; reused += 1
                break
            hold.append(cand)
        if top is None:
            top = hold.pop()
        del hold
        seen.add(id(top))
        p = _replay((case, seed, top))
        if p:
            out.append((k, p))
        del top
        gc.collect()
    return out, reused


def run(ctx):
    ns = 3 if not ctx.thorough else 4
    # vacuity guard: the walk over bonds sorted by first atom (what the pinned code handed to make_whole) violates BondsWhole
    g = ctx.tlc("Reimage", "Reimage_guard.cfg", must_pass=False, workers=16, cfg_text=CFG % dict(order="sorted", ns=2, emit=""))
    if "BondsWhole is violated" not in (g.violation or g.out):
        ctx.machinery_failure("vacuity guard: Order=sorted should violate BondsWhole")
    ctx.tlc("Reimage", "Reimage_placement.cfg", workers=16, timeout=3000, cfg_text=CFG % dict(order="placement", ns=ns, emit=""))
    r = ctx.tlc("Reimage", "Reimage_emit.cfg", workers=16, timeout=3000, must_pass=False,
                cfg_text=(CFG % dict(order="sorted", ns=ns, emit="ACTION_CONSTRAINT Emit")).replace("INVARIANT BondsWhole\n", "").replace("INVARIANT ObservablesKept\n", ""))
    cases = r.tr
    if not cases:
        ctx.machinery_failure("no cases emitted: %s" % (r.violation or r.out)[-500:])
    if ctx.replay:
        rp = json.load(open(ctx.replay))
        tasks = [tuple(rp["first"]["detail"]["task"])]
    else:
        cap = 6000 if not ctx.thorough else 120000
        if len(cases) > cap:
            cases = stratified_sample(cases, lambda c: (json.dumps(c["cell"]), json.dumps(c["walk"])), cap, ctx.rng)
        tasks = [(c, ctx.seed + i) for i, c in enumerate(cases)]
    res = pool.run_tasks(_replay, tasks, workers=16, timeout=120, batch=16)
    nfail = 0
    # histories: groups of cases with the same number of bonds (hence equal atom and bond counts) but different connectivity
    hist = []
    reused = 0
    if not ctx.replay:
        by = {}
        for tk in tasks:
            by.setdefault(len(tk[0]["bonds"]), []).append(tk)
        for grp in by.values():
            ctx.rng.shuffle(grp)
            hist += [grp[i:i + 12] for i in range(0, min(len(grp), 1200 if not ctx.thorough else 24000), 12)]
        for h, (st, val) in zip(hist, pool.run_tasks(_history, hist, workers=16, timeout=600, batch=1)):
            if st != "ok":
                nfail += 1
                ctx.discrepancy(None, "history failed: %s %s" % (st, str(val)[:200]), dict(task=[h[0][0], h[0][1]]), cls="history " + st)
                continue
            reused += val[1]
            for k, p in val[0]:
                nfail += 1
                ctx.discrepancy(None, "after re-imaging %d other systems in the same process: cell=%s pos0=%s bonds=%s: %s" % (k, h[k][0]["cell"], h[k][0]["pos0"], h[k][0]["bonds"], p),
                                dict(task=[h[k][0], h[k][1]], history=[x[0]["bonds"] for x in h[:k]], problem=p), cls="history: " + p.split("(bond")[0][:90])
        if hist and reused < len(hist):
            ctx.machinery_failure("history replay: topology addresses were reused only %d times in %d histories" % (reused, len(hist)))
    n_mol = 0
    if not ctx.replay:
        mr = ctx.tlc("Molecules", "Molecules.cfg", workers=8, timeout=1200, cfg_text=MOL_CFG)
        n_mol = len(mr.tr)
        for rec, (st, val) in zip(mr.tr, pool.run_tasks(_molecules, mr.tr, workers=8, timeout=120, batch=64)):
            if st == "ok" and val is None:
                continue
            nfail += 1
            ctx.discrepancy(None, "bonds %s: %s" % (rec["bonds"], val if st == "ok" else "%s: %s" % (st, str(val)[:200])), dict(task=[cases[0], 0], graph=rec), cls="find_molecules")
    for tk, (st, val) in zip(tasks, res):
        if st == "ok" and val is None:
            continue
        nfail += 1
        msg = val if st == "ok" else "%s: %s" % (st, str(val)[:200])
        ctx.discrepancy(None, "cell=%s pos0=%s bonds(sorted)=%s: %s" % (tk[0]["cell"], tk[0]["pos0"], tk[0]["walk"], msg), dict(task=[tk[0], tk[1]], problem=msg),
                        cls=msg.split("(bond")[0][:100])
    cov = dict(traces_validated_against_impl=len(tasks) + sum(len(h) for h in hist) + n_mol, bond_graphs=n_mol, histories=len(hist), topology_address_reuses=reused, replays_failing=nfail, cases_emitted=len(r.tr), samples=[t[0] for t in tasks[:2]],
               explanation="TLC walks make_whole's bond loop step by step for every (cell, molecule template, atom labelling, bond orientation, per-atom lattice scramble): "
                           "LatticeMoves/BondsWhole/ObservablesKept hold for every placement order and fail for the sorted-by-first-atom order (guard); each case is replayed "
                           "through make_molecules_whole and image_molecules (inplace, make_whole, explicit/guessed anchors) with two scrambled waters added; "
                           "histories of 12 systems with equal counts and different connectivity are re-imaged in one process with topology addresses deliberately reused")
    return ctx.finish(cov, "model_checking", ["4-atom molecules (chain, star, ring) far shorter than half the cell; 4 cells (orthorhombic, hexagonal-like, triclinic, unreduced); lattice step 0.125 nm"])
