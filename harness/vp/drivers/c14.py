"""C14 — reported hydrogen bonds are exactly those meeting the stated criteria.
spec: specs/HBond.tla (+ HBondTables.tla, IntVec.tla): triplet generation, Baker-Hubbard exactly, Wernet-Nilsson by bracket
table; HBondTrace.tla: Kabsch-Sander from logged distances.  Binding: replay (BH, WN, triplets) + trace validation (KS)."""
import concurrent.futures as cf
import json
import os
import re

import numpy as np

from .. import pool, tlc
from . import c15

G = 0.0125
CFG = 'SPECIFICATION Spec\nCONSTANT Mode = "%s"\nINVARIANT StraightIsPresent\nINVARIANT FreqStrict\nACTION_CONSTRAINT Emit\nCHECK_DEADLOCK FALSE\n'
TRACE_CFG = "SPECIFICATION Spec\nCHECK_DEADLOCK FALSE\n"
# the model topology of HBond.tla (atom ids 1..15), realised with real residues / names so that is_water / is_sidechain come out as specified
MODEL = [("SER", "N", "N"), ("SER", "H", "H"), ("SER", "C", "C"), ("SER", "O", "O"), ("SER", "OG", "O"), ("SER", "HG", "H"),
         ("LYS", "NZ", "N"), ("LYS", "HZ1", "H"), ("HOH", "O", "O"), ("HOH", "H1", "H"), ("CYS", "SG", "S"), ("CYS", "HG", "H"), ("PRO", "N", "N"),
         ("SER", "H2", "H"), ("LYS", "H", "H")]
BONDS = [(1, 2), (3, 4), (6, 5), (7, 8), (9, 10), (11, 12), (1, 3), (1, 14), (15, 7)]
CELLS = [None, [[640, 0, 0], [0, 680, 0], [0, 0, 720]], [[640, 0, 0], [-200, 640, 0], [-160, -240, 600]]]


def model_topology(order=None):
    """order: creation order of the model's atoms (a permutation of 0..12); atom k of the model gets index order.index(k)"""
    import mdtraj as md
    from mdtraj.core import element as E
    top = md.Topology(); ch = top.add_chain()
    res = {}
    for rn, _nm, _el in MODEL:
        if rn not in res:
            res[rn] = top.add_residue(rn, ch)
    atoms = {}
    for k in (order if order is not None else range(len(MODEL))):
        rn, nm, el = MODEL[k]
        atoms[k] = top.add_atom(nm, E.get_by_symbol(el), res[rn])
    for i, j in BONDS:
        top.add_bond(atoms[i - 1], atoms[j - 1])
    return top


def _far_positions():
    """every atom 6 nm from every other: no triplet can qualify unless the test moves its three atoms together"""
    return np.array([[(i % 4) * 480, ((i // 4) % 4) * 480, (i // 16) * 480 + 4000] for i in range(len(MODEL))], dtype=float)


def _triplet_case(rec):
    import mdtraj as md
    top = model_topology()
    flags = [(top.atom(i).residue.is_water, top.atom(i).is_sidechain) for i in range(top.n_atoms)]
    exp_flags = [(False, False), (False, False), (False, False), (False, False), (False, True), (False, True), (False, True), (False, True),
                 (True, False), (True, False), (False, True), (False, True), (False, False), (False, True), (False, False)]
    if flags != exp_flags:
        return "MACHINERY: model topology flags differ from the specification's table: %s" % (flags,)
    xyz = (_far_positions() * G).astype(np.float32)[None] * 0 + np.random.RandomState(1).rand(1, len(MODEL), 3).astype(np.float32) * 0.3
    t = md.Trajectory(xyz, top)
    got = md.baker_hubbard(t, freq=-0.5, exclude_water=rec["xw"], sidechain_only=rec["sc"], distance_cutoff=100.0, angle_cutoff=-10.0, periodic=False)
    got = sorted(tuple(int(x) + 1 for x in row) for row in got)
    exp = sorted(tuple(x) for x in rec["trip"])
    if got != exp:
        return "candidate triplets differ: missing %s extra %s" % (sorted(set(exp) - set(got)), sorted(set(got) - set(exp)))
    # the same molecule with its atoms listed in another order (reversed: every hydrogen precedes the atom it is bonded to; and a
    # shuffle): which triplets are candidates depends on elements, bonds and residues, not on the atom numbering
    for order in (list(range(len(MODEL) - 1, -1, -1)), [int(v) for v in np.random.RandomState(len(rec["trip"]) + 3).permutation(len(MODEL))]):
        top2 = model_topology(order)
        t2 = md.Trajectory(xyz[:, order], top2)
        g2 = md.baker_hubbard(t2, freq=-0.5, exclude_water=rec["xw"], sidechain_only=rec["sc"], distance_cutoff=100.0, angle_cutoff=-10.0, periodic=False)
        g2 = sorted(tuple(order[int(x)] + 1 for x in row) for row in g2)
        if g2 != exp:
            return "candidate triplets differ when the atoms are listed in the order %s: missing %s extra %s" % (order, sorted(set(exp) - set(g2)), sorted(set(g2) - set(exp)))
    gw = md.wernet_nilsson(md.Trajectory(np.zeros((1, len(MODEL), 3), dtype=np.float32) + xyz * 0.01, top), exclude_water=rec["xw"], sidechain_only=rec["sc"], periodic=False)
    return None


def _place(apos_list, cell_i, rs):
    """frames with D = atom 1, H = atom 2, A = atom 4 at the lattice positions; others far away; per-atom lattice shifts when periodic"""
    import mdtraj as md
    top = model_topology()
    F = len(apos_list)
    P = np.tile(_far_positions(), (F, 1, 1))
    org = np.array([100.0, 100.0, 100.0])
    for f, a in enumerate(apos_list):
        P[f, 0] = org; P[f, 1] = org + np.array([0, 0, 8.0]); P[f, 3] = org + np.array(a, dtype=float)
    cell = CELLS[cell_i]
    if cell is not None:
        cm = np.array(cell, dtype=float)
        P = P + rs.randint(-1, 2, size=(F, len(MODEL), 3)) @ cm
    t = md.Trajectory((P * G).astype(np.float32), top)
    if cell is not None:
        t.unitcell_vectors = np.stack([np.array(cell) * G] * F).astype(np.float32)
    return t


def _geom_case(task):
    import mdtraj as md
    rec, cell_i, seed = task
    rs = np.random.RandomState(seed)
    t = _place([rec["a"]], cell_i, rs)
    per = cell_i != 0
    probs = []
    if not rec["bhtie"]:
        got = md.baker_hubbard(t, freq=0.0, exclude_water=False, periodic=per)
        has = any(tuple(int(x) for x in row) == (0, 1, 3) for row in got)
        if has != rec["bh"]:
            probs.append("baker_hubbard %s the bond although the criterion is %s" % ("reports" if has else "misses", "met" if rec["bh"] else "not met"))
        if len(got) > (1 if has else 0):
            probs.append("baker_hubbard reports triplets whose atoms are 6 nm apart")
    if rec["wn"] != "undecided":
        got = md.wernet_nilsson(t, exclude_water=False, periodic=per)[0]
        has = any(tuple(int(x) for x in row) == (0, 1, 3) for row in got)
        if has != (rec["wn"] == "in"):
            probs.append("wernet_nilsson %s the bond although the cone criterion is %s" % ("reports" if has else "misses", "met" if rec["wn"] == "in" else "not met"))
    return probs or None


def _freq_case(task):
    import mdtraj as md
    rec, inpos, outpos, cell_i, seed = task
    rs = np.random.RandomState(seed)
    F, k = rec["F"], rec["k"]
    order = list(rs.permutation(F))
    apos = [None] * F
    for n, f in enumerate(order):
        apos[f] = inpos[rs.randint(len(inpos))] if n < k else outpos[rs.randint(len(outpos))]
    t = _place(apos, cell_i, rs)
    freq = rec["fn"] / rec["fd"]
    if abs(k / F - freq) < 1e-9 and False:
        return None
    got = md.baker_hubbard(t, freq=freq, exclude_water=False, periodic=cell_i != 0)
    has = any(tuple(int(x) for x in row) == (0, 1, 3) for row in got)
    if has != rec["rep"]:
        return ["baker_hubbard(freq=%d/%d) %s a bond present in %d of %d frames" % (rec["fn"], rec["fd"], "reports" if has else "misses", k, F)]
    return None


def _ks_record(t, tag, rid):
    """Kabsch-Sander candidates of one single-frame trajectory, computed independently in float64"""
    import mdtraj as md
    x = t.xyz[0].astype(np.float64)
    res = list(t.topology.residues)
    n = len(res)
    idx = []
    for r in res:
        d = {}
        for a in r.atoms:
            d.setdefault(a.name, a.index)
        idx.append((d.get("N", -1), d.get("C", -1), d.get("O", -1), d.get("CA", -1)))
    skip = [min(i) < 0 for i in idx]
    H = {}
    for i in range(n):
        if skip[i]:
            continue
        N = x[idx[i][0]]
        if i == 0 or idx[i - 1][1] < 0 or idx[i - 1][2] < 0:
            H[i] = N.copy()
        else:
            co = x[idx[i - 1][1]] - x[idx[i - 1][2]]
            H[i] = N + 0.1 * co / np.linalg.norm(co)
    cands = []
    near = False
    energies = {}
    for i in range(n):
        for j in range(i + 1, n):
            if skip[i] or skip[j]:
                continue
            d2 = float(((x[idx[i][3]] - x[idx[j][3]]) ** 2).sum())
            if abs(d2 - 0.81) < 2e-4:
                near = True
            if d2 >= 0.81:
                continue
            for d, a in ((i, j), (j, i)):
                if d == j and j == i + 1:
                    pass
                rho = np.linalg.norm(H[d] - x[idx[a][2]]); rnc = np.linalg.norm(x[idx[d][0]] - x[idx[a][1]])
                rhc = np.linalg.norm(H[d] - x[idx[a][1]]); rno = np.linalg.norm(x[idx[d][0]] - x[idx[a][2]])
                R = [max(1, int(round(v * 1e5))) for v in (rho, rnc, rhc, rno)]
                cands.append(dict(d=d, a=a, rho=R[0], rnc=R[1], rhc=R[2], rno=R[3], pro=int(res[d].name == "PRO")))
                energies[(d, a)] = max(-9.9, -2.7888 * (1 / rho + 1 / rnc - 1 / rhc - 1 / rno))
    m = md.kabsch_sander(t)[0].tocoo()
    obs = [[int(c), int(r)] for r, c in zip(m.row, m.col)]         # [donor, acceptor]
    ebad = [(int(c), int(r), float(v), energies.get((int(c), int(r)))) for r, c, v in zip(m.row, m.col, m.data)
            if (int(c), int(r)) in energies and abs(float(v) - energies[(int(c), int(r))]) > 2e-3]
    return dict(id=rid, tag=tag, cands=cands, obs=obs, near=near, ebad=ebad[:3], n=n)


def _ks_gen(task):
    import mdtraj as md
    fn, seed, thorough, base_id = task
    rs = np.random.RandomState(seed)
    recs = []
    rid = base_id
    if fn.startswith("synthetic:"):
        t = c15._peptide(c15.SYNTH[fn.split(":")[1]])
        frames = [0]
    else:
        t = md.load(c15.DATA + fn)
        if t.n_residues > 80:
            t = t.atom_slice([a.index for a in t.topology.atoms if a.residue.index < 70])
        frames = range(min(t.n_frames, 4 if thorough else 2))
    for f in frames:
        for tag, v in c15._variants(t[f], rs, thorough):
            try:
                r = _ks_record(v, "%s#%d/%s" % (fn, f, tag), rid)
            except Exception as e:  # noqa
                r = dict(id=rid, tag="%s#%d/%s" % (fn, f, tag), error="%s: %s" % (type(e).__name__, str(e)[:200]))
            rid += 1
            recs.append(r)
    return recs


def run(ctx):
    trip = ctx.tlc("HBond", "HBond_trip.cfg", workers=4, cfg_text=CFG % "triplets").tr
    geom = ctx.tlc("HBond", "HBond_geom.cfg", workers=4, cfg_text=CFG % "geom").tr
    freq = ctx.tlc("HBond", "HBond_freq.cfg", workers=4, cfg_text=CFG % "freq").tr
    nfail = 0
    n_replay = 0
    # ---- triplets ----
    for rec, (st, val) in zip(trip, pool.run_tasks(_triplet_case, trip, workers=4, batch=1, timeout=120)):
        n_replay += 1
        if st == "ok" and val is None:
            continue
        if st == "ok" and str(val).startswith("MACHINERY"):
            ctx.machinery_failure(val)
        nfail += 1
        ctx.discrepancy(None, "exclude_water=%s sidechain_only=%s: %s" % (rec["xw"], rec["sc"], val), dict(case=rec), cls="triplet generation")
    # ---- geometry (every acceptor position x no cell / orthorhombic / triclinic with per-atom lattice shifts) ----
    gtasks = [(rec, ci, ctx.seed + 17 * i + ci) for i, rec in enumerate(geom) for ci in range(len(CELLS))]
    for tk, (st, val) in zip(gtasks, pool.run_tasks(_geom_case, gtasks, workers=16, batch=8, timeout=120)):
        n_replay += 1
        if st == "ok" and val is None:
            continue
        nfail += 1
        msg = "; ".join(val) if st == "ok" else "%s: %s" % (st, str(val)[:200])
        ctx.discrepancy(None, "D=(0,0,0) H=(0,0,8) A=%s [0.0125 nm], cell %s: %s" % (tk[0]["a"], CELLS[tk[1]], msg), dict(case=tk[0], cell=tk[1]), cls=msg.split(" although")[0][:80])
    # ---- frequency: presence vectors realised with positions the specification classifies as present / absent ----
    inpos = [g["a"] for g in geom if g["bh"] and not g["bhtie"]]
    outpos = [g["a"] for g in geom if not g["bh"] and not g["bhtie"]]
    ftasks = [(rec, inpos, outpos, ci, ctx.seed + 31 * i + ci) for i, rec in enumerate(freq) for ci in ((0, 1, 2) if ctx.thorough else (i % 3,))]
    for tk, (st, val) in zip(ftasks, pool.run_tasks(_freq_case, ftasks, workers=16, batch=8, timeout=120)):
        n_replay += 1
        if st == "ok" and val is None:
            continue
        nfail += 1
        msg = "; ".join(val) if st == "ok" else "%s: %s" % (st, str(val)[:200])
        ctx.discrepancy(None, msg, dict(case=tk[0]), cls="baker_hubbard frequency threshold")
    # ---- Kabsch-Sander: trace validation ----
    names = c15.BASES[:6] + ["synthetic:" + k for k in sorted(c15.SYNTH)]
    ktasks = [(fn, ctx.seed * 100 + i, ctx.thorough, i * 10000) for i, fn in enumerate(names)]
    recs = []
    for st, val in pool.run_tasks(_ks_gen, ktasks, workers=8, timeout=900, batch=1):
        if st != "ok":
            ctx.machinery_failure("KS trace generation failed: %s %s" % (st, str(val)[:400]))
        recs += val
    for r in [r for r in recs if "error" in r]:
        nfail += 1
        ctx.discrepancy(None, "%s: kabsch_sander raised %s" % (r["tag"], r["error"]), dict(tag=r["tag"]), cls="kabsch_sander raised")
    recs = [r for r in recs if "error" not in r and not r["near"]]
    byid = {r["id"]: r for r in recs}
    files = []
    for p in range(8):
        chunk = recs[p::8]
        if chunk:
            fn = os.path.join(ctx.scratch, "ks-%d.json" % p)
            json.dump({"recs": [{k: r[k] for k in ("id", "cands", "obs")} for r in chunk]}, open(fn, "w"))
            files.append(fn)

    def _val(i_fn):
        i, fn = i_fn
        return tlc.run("HBondTrace", "HT%d.cfg" % i, os.path.join(ctx.scratch, "tlc-ht%d" % i), workers=1, cfg_text=TRACE_CFG, env={"TRACE_FILE": fn}, timeout=3000, heap="2g")
    with cf.ThreadPoolExecutor(max_workers=8) as ex:
        outs = list(ex.map(_val, enumerate(files)))
    acc, rej, skp = set(), {}, set()
    for r in outs:
        ctx.tlc_runs.append(dict(module="HBondTrace", states=r.distinct, transitions=r.generated, wall_s=round(r.wall, 1), ok=r.ok))
        if not r.ok:
            ctx.machinery_failure("HBondTrace failed: %s" % (r.violation or r.out)[-800:])
        ctx.states += r.distinct; ctx.transitions += r.generated
        for line in r.prints:
            m = re.match(r'<<"(ACCEPT|SKIP|REJECT)", (\d+)(.*)', line, re.S)
            if m:
                (acc if m.group(1) == "ACCEPT" else skp).add(int(m.group(2))) if m.group(1) != "REJECT" else rej.__setitem__(int(m.group(2)), m.group(3))
    if [r for r in recs if r["id"] not in acc and r["id"] not in rej and r["id"] not in skp]:
        ctx.machinery_failure("KS trace validation lost records")
    for rid, why in sorted(rej.items()):
        nfail += 1
        ctx.discrepancy(None, "%s: kabsch_sander pairs differ from the documented energy criterion (expected-not-reported, reported-not-expected): %s" % (byid[rid]["tag"], why[:300]),
                        dict(tag=byid[rid]["tag"], obs=byid[rid]["obs"], verdict=why[:1000]), cls="kabsch_sander pair set (%s)" % byid[rid]["tag"].split("/")[-1].rstrip("0123456789."))
    for r in recs:
        if r["ebad"] and r["id"] in acc:
            nfail += 1
            ctx.discrepancy(None, "%s: kabsch_sander energy differs from -2.7888(1/rHO+1/rNC-1/rHC-1/rNO): %s" % (r["tag"], r["ebad"]), dict(tag=r["tag"]), cls="kabsch_sander energy value")
    und = sum(1 for g in geom if g["wn"] == "undecided") / max(1, len(geom))
    cov = dict(traces_validated_against_impl=n_replay + len(recs), replays=n_replay, ks_frames=len(recs), ks_accepted=len(acc), ks_inconclusive=len(skp), ks_rejected=len(rej),
               wn_undecided_fraction=und, bh_ties_excluded=sum(1 for g in geom if g["bhtie"]), replays_failing=nfail,
               samples=[trip[0], geom[len(geom) // 2], freq[len(freq) // 2]],
               explanation="triplet generation for every (exclude_water, sidechain_only) on a 15-atom model topology (incl. an N-terminal amine hydrogen that is a side-chain atom on a backbone nitrogen); Baker-Hubbard and Wernet-Nilsson decided exactly / by bracket table "
                           "for 152 acceptor positions on a 0.0125 nm lattice, replayed without cell and in orthorhombic / triclinic cells with per-atom lattice shifts; frequency threshold "
                           "for every (frames 1..4, present k, freq in {0,1/10,1/4,1/3,1/2,2/3,3/4,1}); Kabsch-Sander pair sets and energies of real / perturbed / synthetic backbones validated "
                           "from independently computed distances (documented virtual hydrogen) by HBondTrace.tla")
    return ctx.finish(cov, "model_checking", ["Wernet-Nilsson cone decided through a generated bracket table (scale 1e-4 on cos^2); Kabsch-Sander energies within 0.0012 kcal/mol of -0.5 and near-ties among a donor's best bonds are inconclusive",
                                              "amide hydrogen of a residue whose predecessor lacks C or O is taken at the nitrogen (as for the first residue)"])
