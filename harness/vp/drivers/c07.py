"""C07 — angles and dihedrals equal their geometric definitions, periodic or not; named torsions.
spec: specs/Angles.tla (+ IntVec).  Binding: every emitted triplet/quartet replayed as a packed frame (no cell, periodic=False,
orthorhombic/triclinic cells with per-atom lattice shifts; opt and numpy paths; reversed order); every emitted residue
sequence replayed through indices_phi/psi/omega/chi* and compute_*."""
import json

import numpy as np

from .. import pool

G = 0.125
CFG = """SPECIFICATION Spec
CONSTANT Mode = "%(mode)s"
INVARIANT ReverseAngle
INVARIANT ReverseDih
INVARIANT MirrorDih
INVARIANT RangeOK
INVARIANT MicRecovers
INVARIANT TorsionLocal
ACTION_CONSTRAINT Emit
CHECK_DEADLOCK FALSE
"""
CELLS = [None, [[12, 0, 0], [0, 13, 0], [0, 0, 14]], [[12, 0, 0], [-6, 11, 0], [0, 0, 12]], [[12, 0, 0], [-4, 12, 0], [-4, -5, 11]],
         [[11, 0, 0], [15, 11, 0], [-17, 8, 11]],
         # monoclinic cells with ONE odd angle, each kept as a family of its own (every frame of the call has the same zero pattern
         # in its box matrix): beta only, alpha only
         [[12, 0, 0], [0, 13, 0], [-5, 0, 12]], [[12, 0, 0], [0, 13, 0], [0, -5, 12]]]
KINDS = {"LYS": ["N", "CA", "C", "O", "CB", "CG", "CD", "CE", "NZ"], "VAL": ["N", "CA", "C", "O", "CB", "CG1", "CG2"], "GLY": ["N", "CA", "C", "O"],
         "NOC": ["N", "CA", "O", "CB"], "NON": ["CA", "C", "O", "CB"], "ARG": ["N", "CA", "C", "O", "CB", "CG", "CD", "NE", "CZ", "NH1", "NH2"],
         "HOH": ["O", "H1", "H2"]}
RESNAME = {"LYS": "LYS", "VAL": "VAL", "GLY": "GLY", "NOC": "ALA", "NON": "ALA", "ARG": "ARG", "HOH": "HOH"}


def _top(n):
    import mdtraj as md
    top = md.Topology(); ch = top.add_chain()
    for i in range(n):
        top.add_atom("C", md.element.carbon, top.add_residue("X", ch))
    return top


def _geom_batch(task):
    import mdtraj as md
    recs, seed, cell_i, heavy = task
    rs = np.random.RandomState(seed)
    na = len(recs[0]["p"])
    n = len(recs)
    cell = CELLS[cell_i]
    P = np.array([r["p"] for r in recs], dtype=float)
    if cell is not None:
        # the cell varies from frame to frame (integer multiples; orthorhombic ones also stretched per axis), > 256 frames per call
        cm = np.array(cell, dtype=float)[None] * rs.randint(1, 3, size=(n, 1, 1))
        if cell_i >= 5:
            cm = np.array(cell, dtype=float)[None] * rs.randint(1, 3, size=(n, 1, 1))      # same shape, one or two cells long
        elif cell_i >= 2:
            # triclinic frames take turns among the three triclinic shapes (a multiple of one cell is a sub-lattice of it: a kernel
            # that used a stale cell of the same shape would still find the right image)
            pick = rs.randint(2, 5, size=n)
            cm = np.array([CELLS[c] for c in pick], dtype=float) * rs.randint(1, 3, size=(n, 1, 1))
        if cell_i == 1:
            cm = cm + np.eye(3)[None] * rs.randint(0, 4, size=(n, 3))[:, None, :]
        cm[0] = np.array(cell, dtype=float)
        P = P + np.einsum("nai,nij->naj", rs.randint(-2, 3, size=(n, na, 3)).astype(float), cm) + np.einsum("nai,nij->naj", rs.randint(-3, 4, size=(n, 1, 3)).astype(float), cm)
    else:
        P = P + rs.randint(-40, 41, size=(n, 1, 3))
    t = md.Trajectory((P * G).astype(np.float32), _top(na))
    if cell is not None:
        t.unitcell_vectors = (cm * G).astype(np.float32)
    idx = [list(range(na)), list(range(na - 1, -1, -1))]
    out = []
    fn = md.compute_angles if na == 3 else md.compute_dihedrals
    for opt in ((True, False) if heavy else (True,)):
        sub = slice(None) if opt else slice(0, min(n, 500))
        try:
            th = fn(t[sub], idx, periodic=cell is not None, opt=opt)
        except Exception as e:  # noqa
            return [(0, "%s raised %s" % (fn.__name__, type(e).__name__))]
        for k in range(th.shape[0]):
            fp = recs[k]["fp"]
            a, b = float(th[k, 0]), float(th[k, 1])
            what = "%s(opt=%s,%s)" % (fn.__name__, opt, "cell %d" % cell_i if cell is not None else "no cell")
            c2 = fp["num"] / fp["den"]
            # float32 positions several cells (up to ~8 nm) from the origin: ulp ~1e-6 nm against 0.125 nm bonds, amplified by the
            # cross products -> 1.5e-4 on cos^2 (exact lattice values differ by far more)
            if abs(np.cos(a) ** 2 - c2) > 1.5e-4:
                out.append((k, what + ": cos^2 differs from the exact value")); continue
            if abs(np.cos(a)) > 2e-3 and np.sign(np.cos(a)) != fp["sc"]:
                out.append((k, what + ": wrong sign of the cosine")); continue
            if na == 3:
                if not (0.0 <= a <= np.pi + 1e-6):
                    out.append((k, what + ": angle outside [0, pi]")); continue
                if abs(a - b) > 2e-4:
                    out.append((k, what + ": reversing the atom order changes the angle")); continue
            else:
                if not (-np.pi - 1e-6 <= a <= np.pi + 1e-6):
                    out.append((k, what + ": dihedral outside [-pi, pi]")); continue
                if abs(np.sin(a)) > 2e-3 and np.sign(np.sin(a)) != fp["ss"]:
                    out.append((k, what + ": wrong sign of the dihedral (IUPAC convention)")); continue
                d = abs(a - b); d = min(d, 2 * np.pi - d)
                if d > 3e-4:
                    out.append((k, what + ": reversing the atom order changes the dihedral")); continue
    # the same atoms embedded in a larger system (filler atoms elsewhere) and a longer index list, at a varying position and with
    # different index dtypes: the value must not depend on where the tuple sits in the list or on the number of atoms
    nfill = 3 + seed % 5
    order = rs.permutation(na + nfill)
    slots = [int(x) for x in order[:na]]
    big = np.zeros((n, na + nfill, 3), dtype=np.float32)
    big[:, slots] = t.xyz
    big[:, [int(x) for x in order[na:]]] = t.xyz[:, :1] + rs.randint(2, 7, size=(1, nfill, 3)).astype(np.float32) * 0.29
    tb = md.Trajectory(big, _top(na + nfill))
    if cell is not None:
        tb.unitcell_vectors = (cm * G).astype(np.float32)       # (not t.unitcell_vectors: a second lengths/angles round trip perturbs the cell)
    lst = [[int(v) for v in rs.choice(na + nfill, size=na, replace=False)] for _ in range(23)]
    pos = seed % 23
    lst[pos] = slots
    ref = fn(t, idx[:1], periodic=cell is not None)[:, 0]
    for arr in (np.array(lst, dtype=np.int64), np.array(lst, dtype=np.int32), lst):
        try:
            got = fn(tb, arr, periodic=cell is not None)[:, pos]
        except Exception as e:  # noqa
            out.append((0, "%s raised %s on an embedded index list" % (fn.__name__, type(e).__name__))); break
        d = np.abs(got - ref); d = np.minimum(d, 2 * np.pi - d)
        for k in np.where(d > 2e-5)[0][:3]:
            if na == 3 or abs(abs(ref[k]) - np.pi) > 1e-3:
                out.append((int(k), "%s: the value of a tuple depends on its position in the index list / the number of atoms" % fn.__name__))
    if cell is not None and heavy:
        # periodic=False on the unshifted geometry must give the same numbers as periodic=True on the scattered one
        t0 = md.Trajectory((np.array([r["p"] for r in recs], dtype=float) * G).astype(np.float32), _top(na))
        a0 = fn(t0, idx[:1], periodic=False)[:, 0]
        a1 = fn(t, idx[:1], periodic=True)[:, 0]
        d = np.abs(a0 - a1); d = np.minimum(d, 2 * np.pi - d)
        for k in np.where(d > 5e-4)[0][:5]:
            if abs(abs(a0[k]) - np.pi) > 1e-3:
                out.append((int(k), "periodic result on the scattered molecule differs from the plain result on the whole molecule"))
    return out


def _tors(rec):
    """build a topology from the residue sequence and compare the named-torsion index tables and values"""
    import mdtraj as md
    from mdtraj.core import element as E
    top = md.Topology()
    chains = {}
    amap = {}
    k = 0
    for ri, r in enumerate(rec["res"]):
        if r["chain"] not in chains:
            chains[r["chain"]] = top.add_chain()
        res = top.add_residue(RESNAME[r["kind"]], chains[r["chain"]])
        for nm in KINDS[r["kind"]]:
            top.add_atom(nm, E.get_by_symbol(nm[0]), res)
            amap[(ri + 1, nm)] = k
            k += 1
    rs = np.random.RandomState(len(rec["res"]) * 7 + k)
    if (len(rec["res"]) + k) % 2:
        # the same topology reached through a history: a decoy atom in front and one renamed atom, every named-torsion function
        # evaluated on that, then the topology edited in place back to the intended one (tables keyed by atom index or name must follow)
        first = next(iter(top.residues))
        top.insert_atom("XX", E.get_by_symbol("C"), first, index=0)
        victim = [a for a in top.atoms if a.name in ("CA", "CB", "N")][-1]
        keep = victim.name
        victim.name = "QQ"
        t0 = md.Trajectory(rs.rand(1, k + 1, 3).astype(np.float32), top)
        for f in (md.compute_phi, md.compute_psi, md.compute_omega, md.compute_chi1, md.compute_chi2, md.compute_chi3, md.compute_chi4, md.compute_chi5):
            try:
                f(t0)
            except Exception:  # noqa
                pass
        victim.name = keep
        top.delete_atom_by_index(0)
    t = md.Trajectory(rs.rand(2, k, 3).astype(np.float32), top)
    probs = []
    # call history: an earlier caller (on an equal copy of the topology, or on this very object) asked for the same named torsions and
    # then edited the index arrays it was handed, in place (re-basing to 1-based numbers, zeroing): what it was given is its own
    from mdtraj.geometry import dihedral as _dh
    tprev = md.Trajectory(rs.rand(1, k, 3).astype(np.float32), top.copy() if k % 3 else top)
    for f in (md.compute_phi, md.compute_psi, md.compute_omega, md.compute_chi1, md.compute_chi2, md.compute_chi3, md.compute_chi4, md.compute_chi5):
        try:
            idx0, val0 = f(tprev)
            idx0 = np.asarray(idx0)
            if idx0.size and idx0.flags.writeable:
                idx0 += 1 + k % 2
                idx0[::2] = 0
            if np.asarray(val0).size and np.asarray(val0).flags.writeable:
                np.asarray(val0)[...] = 7.0
        except Exception:  # noqa
            pass
    for f in (_dh.indices_phi, _dh.indices_psi, _dh.indices_omega, _dh.indices_chi1, _dh.indices_chi2):
        try:
            idx0 = np.asarray(f(tprev.topology))
            if idx0.size and idx0.flags.writeable:
                idx0 -= 1
        except Exception:  # noqa
            pass

    def quartets(spec):
        return sorted(tuple(amap[(q[0], q[1])] for q in row) for row in spec)
    tables = [("phi", md.compute_phi, rec["phi"]), ("psi", md.compute_psi, rec["psi"]), ("omega", md.compute_omega, rec["omega"])]
    for c, f in enumerate((md.compute_chi1, md.compute_chi2, md.compute_chi3, md.compute_chi4, md.compute_chi5)):
        tables.append(("chi%d" % (c + 1), f, rec["chi"][c]))
    for name, f, spec in tables:
        try:
            idx, val = f(t)
        except Exception as e:  # noqa
            probs.append("%s raised %s" % (name, type(e).__name__)); continue
        got = sorted(tuple(int(x) for x in row) for row in np.asarray(idx).reshape(-1, 4))
        if got != quartets(spec):
            probs.append("%s: atom quartets differ from the documented pattern (got %s expected %s)" % (name, got, quartets(spec)))
        elif len(got):
            ref = md.compute_dihedrals(t, np.asarray(idx))
            if val.shape != ref.shape or not np.allclose(val, ref, atol=1e-6):
                probs.append("%s: values are not compute_dihedrals over its own quartets" % name)
    return probs or None


def run(ctx):
    ctx.tlc("Angles", "Angles_mic.cfg", workers=16, cfg_text=CFG % dict(mode="mic"))
    ang = ctx.tlc("Angles", "Angles_angle.cfg", workers=16, cfg_text=CFG % dict(mode="angle")).tr
    dih = ctx.tlc("Angles", "Angles_dih.cfg", workers=16, cfg_text=CFG % dict(mode="dihedral")).tr
    tor = ctx.tlc("Angles", "Angles_tors.cfg", workers=16, cfg_text=CFG % dict(mode="torsions")).tr
    if ctx.replay:
        rp = json.load(open(ctx.replay))
        c = rp["first"]["detail"]["case"]
        ang, dih, tor = ([c] if c.get("mode") == "angle" else []), ([c] if c.get("mode") == "dihedral" else []), ([c] if c.get("mode") == "torsions" else [])
    if not ctx.thorough:
        ctx.rng.shuffle(dih)
        dih = dih[:30000]
    tasks = []
    B = 3000
    for recs in (ang, dih):
        for i in range(0, len(recs), B):
            for ci in range(len(CELLS)):
                if ctx.thorough or ci in (0, 1 + (i // B) % 6):
                    tasks.append((recs[i:i + B], ctx.seed * 31 + i + ci, ci, (i // B) % 5 == 0))
    res = pool.run_tasks(_geom_batch, tasks, workers=16, timeout=900, batch=1)
    nfail = 0
    ncase = 0
    for tk, (st, val) in zip(tasks, res):
        ncase += len(tk[0])
        if st != "ok":
            nfail += 1
            ctx.discrepancy(None, "batch failed: %s %s" % (st, str(val)[:200]), dict(case=tk[0][0]), cls="batch " + st)
            continue
        for k, p in val:
            nfail += 1
            ctx.discrepancy(None, "p=%s (cell %s): %s" % (tk[0][k]["p"], CELLS[tk[2]], p), dict(case=tk[0][k], cell=tk[2]), cls=p.split(":")[-1].strip()[:90] + " / " + p.split("(")[0])
    res2 = pool.run_tasks(_tors, tor, workers=16, timeout=120, batch=32)
    for rec, (st, val) in zip(tor, res2):
        if st == "ok" and val is None:
            continue
        nfail += 1
        msg = "; ".join(val) if st == "ok" else "%s: %s" % (st, str(val)[:200])
        ctx.discrepancy(None, "residues %s: %s" % ([(r["kind"], r["chain"]) for r in rec["res"]], msg[:400]), dict(case=rec), cls="named torsion: " + msg.split(":")[0][:60])
    cov = dict(traces_validated_against_impl=ncase + len(tor), geometric_cases=ncase, angle_cases=len(ang), dihedral_cases=len(dih), residue_sequences=len(tor),
               replays_failing=nfail, samples=[ang[0] if ang else None, dih[0] if dih else None, tor[0] if tor else None],
               explanation="all lattice triplets (middle atom at the origin, arms in a 5^3 cube) and quartets (six central bonds, outer atoms in 5^3 cubes) with exact (sign sin, sign cos, cos^2) "
                           "fingerprints; replayed without cell, and scattered by per-atom lattice shifts in four cells, opt and numpy paths, reversed atom order; "
                           "all residue sequences of length 2..3 over 7 residue kinds with a chain break at every position for phi/psi/omega/chi1-5")
    return ctx.finish(cov, "model_checking", ["lattice step 0.125 nm; cos^2 tolerance 1.5e-4, signs compared when |value| > 2e-3; collinear quartets excluded by the spec's Defined predicate"])
