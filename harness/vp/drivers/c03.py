"""C03 — slicing, joining and stacking trajectories act like array indexing on all fields.
spec: specs/TrajOps.tla.  Binding: transition-coverage replay with a numpy shadow, aliasing via np.shares_memory,
cache soundness via _rmsd_traces (opportunistic) and rmsd(precentered=True) vs rmsd from scratch (public)."""
import json
import os
import zlib

import numpy as np

from .. import pool
from ..core import stratified_sample

B = 3   # real atoms per specification atom (so that every row is a non-degenerate point set)

CFG = """SPECIFICATION Spec
CONSTANTS F = %(F)d
 A = %(A)d
 Obj = {1,2,3}
 D = %(D)d
 FixSlice = %(fs)s
 FixAtomSliceInplace = %(fa)s
%(view)s
ACTION_CONSTRAINT %(emit)s
INVARIANT CacheSound
INVARIANT FieldLengths
INVARIANT NoSharedXyz
%(extra)s
PROPERTY Independent
CHECK_DEADLOCK FALSE
"""
_env = {}


def _setup(F, A):
    import mdtraj as md
    rs = np.random.RandomState(7)
    top = md.Topology()
    ch = top.add_chain()
    for i in range(A * B):
        top.add_atom("CA", md.element.carbon if i % 3 else md.element.sulfur, top.add_residue("ALA", ch))    # unequal masses: centre of mass != centre of geometry
    base = (rs.rand(F + 14, 2 * A * B, 3) * 2 + np.arange(F + 14)[:, None, None] * 0.37).astype(np.float32)
    _env.update(F=F, A=A, top=top, base=base)


def _base():
    import mdtraj as md
    F, base = _env["F"], _env["base"]
    L = (np.tile([[5., 6., 7.]], (F, 1)) + np.arange(F)[:, None] * 0.1).astype(np.float32)
    t = md.Trajectory(base[:F, :_env["A"] * B].copy(), _env["top"], time=np.arange(F) * 1.5 + 1, unitcell_lengths=L.copy(),
                      unitcell_angles=np.full((F, 3), 90., dtype=np.float32))
    sh = dict(xyz=base[:F, :_env["A"] * B].copy(), time=np.asarray(t.time).copy(), L=L.copy(), ang=np.full((F, 3), 90., dtype=np.float32))
    return t, sh


def _spellings(idx0, n):
    """every Python key that denotes exactly the row positions idx0 (0-based) of an n-row trajectory"""
    out = []
    if len(idx0) == 1:
        i = idx0[0]
        out += [i, i - n, slice(i, i + 1), [i], np.array([i])]
        m = np.zeros(n, dtype=bool); m[i] = True
        out.append(m)
        return out
    step = idx0[1] - idx0[0]
    if step != 0 and all(idx0[k + 1] - idx0[k] == step for k in range(len(idx0) - 1)):
        stop = idx0[-1] + step
        out.append(slice(idx0[0], None if stop < 0 else stop, step))
        if step > 0 and idx0[0] == 0 and stop >= n:
            out.append(slice(None, None, step))
        if step == -1 and idx0[0] == n - 1 and stop < 0:
            out.append(slice(None, None, -1))
        if step > 0:
            m = np.zeros(n, dtype=bool); m[idx0] = True
            out.append(m)
    out += [list(idx0), np.array(idx0)]
    return out


def _cols(cs):
    return [(c - 1) * B + k for c in cs for k in range(B)]


def _traces(x):
    c = x.astype(np.float64)
    c = c - c.mean(1, keepdims=True)
    return (c ** 2).sum((1, 2))


def _kabsch(P, Q, sel):
    """move P (n,3) rigidly so that P[sel] is optimally superposed on Q[sel]; float64"""
    P = P.astype(np.float64); Q = Q.astype(np.float64)
    pc = P[sel].mean(0); qc = Q[sel].mean(0)
    H = (P[sel] - pc).T @ (Q[sel] - qc)
    U, S, Vt = np.linalg.svd(H)
    d = np.sign(np.linalg.det(Vt.T @ U.T))
    R = Vt.T @ np.diag([1, 1, d]) @ U.T
    return (P - pc) @ R.T + qc


def _check(t, sh, spec):
    """alpha(real) vs shadow / spec summary for one live object; returns None or a problem string"""
    if t.xyz.shape != sh["xyz"].shape:
        return "shape %s vs %s" % (t.xyz.shape, sh["xyz"].shape)
    if spec is not None and (t.n_frames != spec["nr"] or t.n_atoms != spec["nc"] * B):
        return "shape differs from specification (%d,%d) vs (%d,%d)" % (t.n_frames, t.n_atoms, spec["nr"], spec["nc"] * B)
    if not np.allclose(t.xyz, sh["xyz"], atol=sh.get("tol", 3e-6)):
        return "xyz differs from numpy semantics"
    if len(t.time) != t.n_frames or not np.array_equal(t.time, sh["time"]):
        return "time differs from numpy semantics"
    if (t.unitcell_lengths is None) != (sh["L"] is None):
        return "cell presence differs"
    if (t.unitcell_angles is None) != (sh["L"] is None):
        return "half-set cell (lengths xor angles)"
    if sh["L"] is not None and (t.unitcell_lengths.shape != sh["L"].shape or not np.allclose(t.unitcell_lengths, sh["L"])
                                or not np.allclose(t.unitcell_angles, sh["ang"])):
        return "cell differs from numpy semantics"
    if t.topology is not None and t.topology.n_atoms != t.n_atoms:
        return "topology atom count differs from coordinates"
    tr = getattr(t, "_rmsd_traces", None)
    if tr is not None:
        if spec is not None and not spec["tr"]:
            pass   # an implementation may keep a cache where the design drops it, as long as it is right
        if len(tr) != t.n_frames or not np.allclose(tr, _traces(t.xyz), rtol=1e-4, atol=1e-5):
            return "STALE cache (_rmsd_traces does not describe the current coordinates)"
    return None


def _rmsd_agree(t):
    import mdtraj as md
    if t.n_frames == 0 or t.n_atoms < 3:
        return None
    try:
        a = md.rmsd(t, t, 0, precentered=True).astype(np.float64)
    except Exception as e:  # noqa
        return "rmsd(precentered=True) raised %s" % type(e).__name__
    b = md.rmsd(t, t, 0, precentered=False).astype(np.float64)
    g = _traces(t.xyz) / t.n_atoms
    scale = np.maximum(g + g[0], 1e-6)
    if not np.all(np.abs(a ** 2 - b ** 2) <= 2e-4 * scale + 1e-7):
        return "rmsd(precentered=True) differs from rmsd computed from scratch"
    return None


FIELDS = (("xyz", "xyz"), ("time", "time"), ("unitcell_lengths", "cell"), ("unitcell_angles", "cell"))


def _replay(task):
    import mdtraj as md
    tr_test, variant = task
    hist = tr_test["hist"]
    t, sh = _base()
    o = {1: (t, sh)}
    for k, s in enumerate(hist):
        op = s["op"]
        last = k == len(hist) - 1
        try:
            if op in ("index", "slice_nocopy"):
                T, S = o[s["x"]]
                idx0 = [i - 1 for i in s["idx"]]
                sp = _spellings(idx0, T.n_frames)
                if op == "slice_nocopy":
                    sp = [x for x in sp if isinstance(x, slice)] or sp
                key = sp[(variant + k) % len(sp)]
                if op == "slice_nocopy":
                    nt = T.slice(key, copy=False)
                else:
                    nt = T[key] if (variant // 7) % 2 == 0 else T.slice(key)
                ns = dict(xyz=S["xyz"][idx0].copy(), time=S["time"][idx0].copy(), L=None if S["L"] is None else S["L"][idx0].copy(),
                          ang=None if S["L"] is None else S["ang"][idx0].copy(), tol=S.get("tol", 3e-6))
                o[s["dst"]] = (nt, ns)
                if op == "index":
                    if nt.topology is T.topology or (nt.n_atoms and next(nt.topology.atoms) is next(T.topology.atoms)):
                        return dict(step=k, problem="index result shares its topology with the source")
            elif op in ("join", "md_join"):
                (T1, S1), (T2, S2) = o[s["x"]], o[s["y"]]
                if T1.topology != T2.topology:
                    return "not-applicable"     # same atoms, but Topology.__eq__ sees different chains/residues (C04's subject): join may refuse
                if op == "md_join":
                    nt = md.join([T1, T2])
                else:
                    nt = T1.join(T2) if variant % 2 == 0 else T1 + T2
                ns = dict(xyz=np.concatenate([S1["xyz"], S2["xyz"]]), time=np.concatenate([S1["time"], S2["time"]]),
                          L=None if S1["L"] is None else np.concatenate([S1["L"], S2["L"]]),
                          ang=None if S1["L"] is None else np.concatenate([S1["ang"], S2["ang"]]), tol=max(S1.get("tol", 3e-6), S2.get("tol", 3e-6)))
                o[s["dst"]] = (nt, ns)
                if nt.topology is T1.topology or nt.topology is T2.topology:
                    return dict(step=k, problem="join result shares its topology with a source")
                if T1.n_frames:
                    # side observation (TrajOps!DiscardIdentity): x joined with (last frame of x, then y), overlapping frame discarded, is x
                    # joined with y -- in every field, and whatever cache the result carries describes its own rows
                    nd = T1.join(T1[-1:].join(T2), discard_overlapping_frames=True)
                    r = _check(nd, ns, None) or _rmsd_agree(nd)
                    if r:
                        return dict(step=k, problem="join(discard_overlapping_frames=True) of x with (last frame of x, y): " + r)
            elif op == "stack":
                (T1, S1), (T2, S2) = o[s["x"]], o[s["y"]]
                nt = T1.stack(T2)
                ns = dict(xyz=np.hstack([S1["xyz"], S2["xyz"]]), time=S1["time"].copy(), L=None if S1["L"] is None else S1["L"].copy(),
                          ang=None if S1["L"] is None else S1["ang"].copy(), tol=max(S1.get("tol", 3e-6), S2.get("tol", 3e-6)))
                o[s["dst"]] = (nt, ns)
            elif op == "atom_slice":
                T, S = o[s["x"]]
                c = _cols(s["idx"])
                if s["kind"] == "inplace":
                    r = T.atom_slice(c, inplace=True)
                    S["xyz"] = S["xyz"][:, c].copy()
                else:
                    nt = T.atom_slice(c)
                    ns = dict(xyz=S["xyz"][:, c].copy(), time=S["time"].copy(), L=None if S["L"] is None else S["L"].copy(),
                              ang=None if S["L"] is None else S["ang"].copy(), tol=S.get("tol", 3e-6))
                    o[s["dst"]] = (nt, ns)
                    if nt.topology is T.topology:
                        return dict(step=k, problem="atom_slice result shares its topology with the source")
            elif op == "center":
                T, S = o[s["x"]]
                T.center_coordinates()
                S["xyz"] = (S["xyz"] - S["xyz"].astype(np.float64).mean(1, keepdims=True)).astype(np.float32)
            elif op == "center_mw":
                T, S = o[s["x"]]
                T.center_coordinates(mass_weighted=True)
                m = np.array([a.element.mass for a in T.topology.atoms], dtype=np.float64)
                com = (S["xyz"].astype(np.float64) * m[None, :, None]).sum(1, keepdims=True) / m.sum()
                S["xyz"] = (S["xyz"] - com).astype(np.float32)
                S["tol"] = max(S.get("tol", 3e-6), 2e-5)
            elif op == "superpose":
                (T, S), (R, RS) = o[s["x"]], o[s["y"]]
                fr = s["dst"] - 1
                c = _cols(s["idx"])
                refrow = RS["xyz"][fr].copy()
                d0 = [np.linalg.norm(S["xyz"][i][:, None] - S["xyz"][i][None], axis=-1) for i in range(len(S["xyz"]))]
                T.superpose(R, frame=fr, atom_indices=c)
                for i in range(T.n_frames):
                    if not np.allclose(np.linalg.norm(T.xyz[i][:, None] - T.xyz[i][None], axis=-1), d0[i], atol=2e-5):
                        return dict(step=k, problem="superpose is not a rigid motion")
                    # alignment quality on the selected atoms: no worse than the float64 Kabsch optimum (+ float32 slack);
                    # the exact optimality of the rotation is C06's business, the shadow adopts the moved coordinates
                    # (planar / <= 3-atom alignment sets are C06's open finding rmsd:planar_alignment_set: only rigidity is checked here)
                    if len(c) < 4 or min(np.linalg.svd(q[c] - q[c].mean(0), compute_uv=False)[2] for q in (S["xyz"][i].astype(np.float64), refrow.astype(np.float64))) < 1e-3:
                        continue
                    best = _kabsch(S["xyz"][i], refrow, c)
                    dk = np.sqrt(((best[c] - refrow[c].astype(np.float64)) ** 2).sum(1).mean())
                    dr = np.sqrt(((T.xyz[i][c].astype(np.float64) - refrow[c]) ** 2).sum(1).mean())
                    if dr > dk + 2e-3:
                        return dict(step=k, problem="superpose does not bring the alignment atoms onto the reference (%.4f vs optimum %.4f)" % (dr, dk))
                S["xyz"] = T.xyz.copy()
            elif op == "assign_xyz":
                T, S = o[s["x"]]
                new = _env["base"][10:10 + T.n_frames, : T.n_atoms].copy()
                T.xyz = new.copy()
                S["xyz"] = new
                S["tol"] = 3e-6
            elif op == "assign_time":
                T, S = o[s["x"]]
                new = np.arange(T.n_frames) * 0.5 + 100
                T.time = new.copy()
                S["time"] = new
            elif op == "assign_cell":
                T, S = o[s["x"]]
                if s["kind"] == "none":
                    if variant % 2 == 0:
                        T.unitcell_vectors = None
                    else:
                        T.unitcell_lengths = None
                        T.unitcell_angles = None
                    S["L"] = None; S["ang"] = None
                else:
                    new = (np.tile([[3., 4., 5.]], (T.n_frames, 1)) + np.arange(T.n_frames)[:, None] * 0.2).astype(np.float32)
                    T.unitcell_lengths = new.copy()
                    T.unitcell_angles = np.full((T.n_frames, 3), 90., dtype=np.float32)
                    S["L"] = new; S["ang"] = np.full((T.n_frames, 3), 90., dtype=np.float32)
        except Exception as e:  # noqa
            return dict(step=k, problem="EXC %s: %s" % (type(e).__name__, str(e)[:100]))
        post = tr_test["post"] if (last and tr_test.get("post")) else None
        for slot, (T, S) in o.items():
            r = _check(T, S, post[slot - 1] if post else None)
            if r:
                return dict(step=k, slot=slot, problem=r)
        # ---- aliasing: shared memory only where the specification allows it ------------------------
        if last:
            allowed = set()
            for x, y, fld in tr_test["sh"]:
                allowed.add((min(x, y), max(x, y), fld))
            slots = sorted(o)
            for i in range(len(slots)):
                for j in range(i + 1, len(slots)):
                    X, Y = o[slots[i]][0], o[slots[j]][0]
                    for attr, fld in FIELDS:
                        a, b = getattr(X, attr), getattr(Y, attr)
                        if a is not None and b is not None and np.shares_memory(a, b) and (slots[i], slots[j], fld) not in allowed:
                            return dict(step=k, problem="objects %d and %d share %s memory" % (slots[i], slots[j], attr))
    # ---- observers: precentered shortcut, analyses and save leave their input bit-identical ------------------
    for slot, (T, S) in o.items():
        if getattr(T, "_rmsd_traces", None) is not None or True:
            r = _rmsd_agree(T)
            if r:
                return dict(step=len(hist), slot=slot, problem=r)
    slot = max(o)
    T = o[slot][0]
    if T.n_frames and T.n_atoms >= 3:
        snap = (T.xyz.copy(), T.time.copy(), None if T.unitcell_lengths is None else T.unitcell_lengths.copy())
        md.compute_distances(T, [[0, 1]]); md.compute_rg(T); md.compute_angles(T, [[0, 1, 2]], periodic=T.unitcell_lengths is not None)
        if variant % 5 == 0:
            p = os.path.join(_env["dir"], "obs-%d.h5" % os.getpid())
            T.save(p)
            os.unlink(p)
        if not (np.array_equal(snap[0], T.xyz) and np.array_equal(snap[1], T.time)
                and (snap[2] is None or np.array_equal(snap[2], T.unitcell_lengths))):
            return dict(step=len(hist), slot=slot, problem="an analysis/save call modified its input")
    return None


def _feat(t):
    return tuple((s["op"], s["kind"]) for s in t["hist"])


def run(ctx):
    F, A = 3, 2
    _setup(F, A)
    _env["dir"] = ctx.scratch
    # vacuity guard: with the design switches set to what the pinned code did, TLC must find CacheSound violated
    g = ctx.tlc("TrajOps", "TrajOps_guard.cfg", must_pass=False, workers=8,
                cfg_text=(CFG % dict(F=F, A=A, D=3, fs="FALSE", fa="FALSE", view="VIEW View", emit="Emit", extra="")).replace("ACTION_CONSTRAINT Emit\n", ""))
    if "CacheSound is violated" not in (g.violation or g.out):
        ctx.machinery_failure("vacuity guard: TrajOps with FixSlice=FALSE should violate CacheSound")
    tests = []
    if ctx.thorough:
        plans = [(3, True, None), (12, False, 3000)]
    else:
        plans = [(2, True, None), (3, False, 6000), (7, False, 400)]
    for D, view, sim in plans:
        kw = {}
        if isinstance(sim, int):
            kw = dict(simulate=sim, depth=D + 1, seed=ctx.seed + 3)
        r = ctx.tlc("TrajOps", "TrajOps_D%d_%s.cfg" % (D, "sim" if isinstance(sim, int) else "bfs"), workers=1 if (kw or (view and not ctx.thorough)) else 16,
                    cfg_text=CFG % dict(F=F, A=A, D=D, fs="TRUE", fa="TRUE", view="VIEW View" if view else "",
                                        emit="EmitLast" if kw else "Emit", extra="" if kw else "INVARIANT DiscardIdentity"), timeout=1500, **kw)
        got = r.tr
        if sim == "sample":
            got = stratified_sample(got, _feat, 25000, ctx.rng)
        tests += got
    tasks = [(t, zlib.crc32(json.dumps(t["hist"]).encode()) % 1000) for t in tests]
    if ctx.replay:
        rp = json.load(open(ctx.replay))
        tasks = [tuple(rp["first"]["detail"]["task"])]
    res = pool.run_tasks(_replay, tasks, workers=16, timeout=60, batch=64)
    nfail = 0
    for t, (st, val) in zip(tasks, res):
        if st == "ok" and (val is None or val == "not-applicable"):
            continue
        nfail += 1
        if st != "ok":
            val = dict(step=-1, problem="%s: %s" % (st, str(val)[:300]))
        hs = " ; ".join("%s(%s)" % (s["op"], ",".join(str(v) for v in (s["x"], s["y"], s["dst"], s["idx"], s["kind"]))) for s in t[0]["hist"][: val["step"] + 1 if val["step"] >= 0 else None])
        last = t[0]["hist"][min(max(val["step"], 0), len(t[0]["hist"]) - 1)]
        ctx.discrepancy(None, "[%s] -> %s" % (hs, val["problem"]), dict(task=[t[0], t[1]], observed=val),
                        cls="%s after %s" % (val["problem"].split("(")[0][:80], last["op"] + ("/" + last["kind"] if last["kind"] else "")))
    samples = [t[0]["hist"] for t in tasks[:: max(1, len(tasks) // 3)][:3]]
    cov = dict(traces_validated_against_impl=len(tasks), replays_failing=nfail, F=F, A=A, real_atoms_per_spec_atom=B, samples=samples,
               explanation="every transition of the bounded TrajOps model (3 object slots; index in every key spelling, slice(copy=False), join/+, md.join, stack, "
                           "atom_slice copy/inplace, center_coordinates, superpose, xyz/time/cell assignment) replayed on real Trajectory objects; after every step every "
                           "live object is compared with a numpy shadow, the cache with freshly computed traces, memory sharing with the specification's sh relation; "
                           "afterwards rmsd(precentered=True) vs from scratch and input bit-identity under analysis/save calls")
    return ctx.finish(cov, "model_checking",
                      ["base arrays are C-contiguous float32 as loaders produce them", "in-place operations are not taken on objects that share memory after slice(copy=False) (write-through aliasing is permitted by the property and not modelled)"])
