"""C12 — every selection expression selects exactly the atoms its meaning denotes.
spec: specs/Selection.tla (the state graph is the set of expressions).  Binding: every emitted expression replayed
through Topology.select and eval(Topology.select_expression); malformed productions must raise."""
import json
import re

import numpy as np

from .. import pool
from ..core import stratified_sample

CFG = """SPECIFICATION Spec
CONSTANT Full = %(full)s
INVARIANT DeMorgan
INVARIANT PrecedenceSane
ACTION_CONSTRAINT Emit
CHECK_DEADLOCK FALSE
"""
# (name, element symbol, mass*1000, resname, resSeq, resid, chain, segment, code, protein, water, backbone, sidechain, n_bonds)
TABLE = [("N", "N", 14007, "ALA", 5, 0, 0, "A", "A", True, False, True, False, 1), ("CA", "C", 12011, "ALA", 5, 0, 0, "A", "A", True, False, True, False, 3),
         ("CB", "C", 12011, "ALA", 5, 0, 0, "A", "A", True, False, False, True, 1), ("C", "C", 12011, "ALA", 5, 0, 0, "A", "A", True, False, True, False, 2),
         ("N", "N", 14007, "GLY", 6, 1, 0, "A", "G", True, False, True, False, 2), ("CA", "C", 12011, "GLY", 6, 1, 0, "A", "G", True, False, True, False, 1),
         ("O", "O", 15999, "HOH", 5, 2, 1, "B", "X", False, True, False, False, 2), ("H1'", "H", 1008, "HOH", 5, 2, 1, "B", "X", False, True, False, False, 1),
         ("H2", "H", 1008, "HOH", 5, 2, 1, "B", "X", False, True, False, False, 1), ("NA", "Na", 22990, "NA", 7, 3, 1, "B", "X", False, False, False, False, 0)]
_top = None


def model_topology():
    import mdtraj as md
    from mdtraj.core import element as E
    top = md.Topology()
    chains = {}
    res = {}
    for name, el, _m, rn, rs, ri, ch, seg, *_ in TABLE:
        if ch not in chains:
            chains[ch] = top.add_chain()
        if ri not in res:
            res[ri] = top.add_residue(rn, chains[ch], resSeq=rs, segment_id=seg)
        top.add_atom(name, E.get_by_symbol(el), res[ri])
    a = list(top.atoms)
    for i, j in [(0, 1), (1, 2), (1, 3), (3, 4), (4, 5), (6, 7), (6, 8)]:
        top.add_bond(a[i], a[j])
    return top


def check_table(top):
    """the specification's atom table must describe the real model topology, or nothing below means anything"""
    bad = []
    for x, row in zip(top.atoms, TABLE):
        got = (x.name, x.element.symbol, int(round(x.element.mass * 1000)), x.residue.name, x.residue.resSeq, x.residue.index, x.residue.chain.index,
               x.segment_id, x.residue.code or "X", x.residue.is_protein, x.residue.is_water, x.is_backbone, x.is_sidechain, x.n_bonds)
        exp = row
        for k, (g, e) in enumerate(zip(got, exp)):
            if k == 2:
                if abs(g - e) > 2:
                    bad.append((x.index, k, g, e))
            elif g != e:
                bad.append((x.index, k, g, e))
    return bad


def render(toks):
    """tokens -> text; integer literals that belong to a `mass` condition are milli-dalton in the specification"""
    out = []
    in_mass = False
    for t in toks:
        if t["k"] == "int":
            out.append("%.3f" % (t["n"] / 1000.0) if in_mass else str(t["n"]))
        elif t["k"] == "str":
            out.append({"bare": t["s"], "single": "'%s'" % t["s"], "double": '"%s"' % t["s"],
                        "escaped": "'%s'" % t["s"].replace("\\", "\\\\").replace("'", "\\'")}[t["q"]])
        else:
            if t["s"] == "mass":
                in_mass = True
            elif t["s"] not in CMP and t["s"] != "to":
                in_mass = False
            out.append(t["s"])
    return " ".join(out)


CMP = ("eq", "ne", "lt", "le", "gt", "ge", "==", "!=", "<", "<=", ">", ">=", "=~")
CONN = ("and", "&&", "or", "||", "not", "!")


def features(rec):
    words = [t["s"] for t in rec["toks"] if t["k"] == "word"]
    return (rec["shape"], tuple(rec["kinds"]), tuple(sorted(set(w for w in words if w in CMP or w in CONN))))


def edited_topology():
    """the same model topology reached through a history: a larger topology (one extra atom at index 0) is queried with selections
    of every attribute family, then edited down to the model.  A selection denotes atoms of the topology AS IT IS NOW."""
    from mdtraj.core import element as E
    top = model_topology()
    top.insert_atom("K", E.get_by_symbol("K"), next(iter(top.residues)), index=0)
    for q in ("n_bonds 2", "n_bonds < 2", "name CA", "resid 1", "mass > 13", "protein", "index 3", "water and n_bonds 1", "backbone", "resname ALA", "chainid 1",
              "element C", "segment_id A", "rescode G", "resSeq 5", "sidechain", "all"):
        top.select(q)
        eval(top.select_expression(q), {"topology": top, "re": re})
    top.delete_atom_by_index(0)
    return top


def _init():
    global _top
    _top = (model_topology(), edited_topology())
    return _top


def _replay(rec, tops):
    top = tops[1] if rec.get("_edited") else tops[0]
    s = render(rec["toks"])
    exp = sorted(rec["sel"])
    if rec["shape"] == "BAD":
        try:
            got = top.select(s)
            return dict(expr=s, outcome="accepted", got=[int(i) for i in got])
        except Exception:
            pass
        try:
            eval(top.select_expression(s), {"topology": top, "re": re})
            return dict(expr=s, outcome="select_expression accepted")
        except Exception:
            return None
    try:
        got = [int(i) for i in top.select(s)]
    except Exception as e:  # noqa
        return dict(expr=s, outcome="raises " + type(e).__name__, msg=str(e)[:80])
    if got != exp:
        return dict(expr=s, outcome="wrong set", got=got, expected=exp)
    try:
        src = top.select_expression(s)
        got2 = [int(i) for i in eval(src, {"topology": top, "re": re})]
    except Exception as e:  # noqa
        return dict(expr=s, outcome="select_expression raises " + type(e).__name__)
    if got2 != exp:
        return dict(expr=s, outcome="select_expression wrong set", got=got2, expected=exp)
    return None


def run(ctx):
    st, bad = pool.run_tasks(lambda _: check_table(model_topology()), [0], workers=1, batch=1)[0]
    if st != "ok" or bad:
        ctx.machinery_failure("model topology does not match the specification's atom table: %s" % (bad,))
    st, ed = pool.run_tasks(lambda _: [(a.name, a.index, a.residue.index) for a in edited_topology().atoms] == [(a.name, a.index, a.residue.index) for a in model_topology().atoms], [0], workers=1, batch=1)[0]
    if st != "ok" or not ed:
        ctx.machinery_failure("edited topology does not come back to the model topology: %s" % (ed,))
    r = ctx.tlc("Selection", "Selection_%s.cfg" % ("full" if ctx.thorough else "mid"), workers=16, timeout=3000,
                cfg_text=CFG % dict(full="TRUE" if ctx.thorough else "FALSE"))
    recs = r.tr
    n_emitted = len(recs)
    budget = 400000 if ctx.thorough else 9000
    if ctx.replay:
        rp = json.load(open(ctx.replay))
        recs = [rp["first"]["detail"]["rec"]]
    elif len(recs) > budget:
        bads = [x for x in recs if x["shape"] == "BAD"]
        strat = features if ctx.thorough else (lambda x: (x["shape"], tuple(x["kinds"])))
        primed = [x for x in recs if x["shape"] != "BAD" and any(t["k"] == "str" and ("'" in t["s"] or '"' in t["s"]) for t in x["toks"])]
        ctx.rng.shuffle(primed)
        recs = stratified_sample([x for x in recs if x["shape"] != "BAD"], strat, budget, ctx.rng) + bads + primed[:300]
    for i, x in enumerate(recs):
        x["_edited"] = (i % 3 == 1) and not ctx.replay or bool(x.get("_edited"))
    res = pool.run_tasks(_replay, recs, workers=16, timeout=120, batch=64, init=_init)
    nfail = 0
    for rec, (st, val) in zip(recs, res):
        if st == "ok" and val is None:
            continue
        nfail += 1
        if st != "ok":
            val = dict(expr=render(rec["toks"]), outcome=st, msg=str(val)[:200])
        f = features(rec)
        ctx.discrepancy(None, "%r%s -> %s (got %s expected %s)" % (val["expr"], " [on the topology edited back to the model after earlier selections]" if rec.get("_edited") else "", val["outcome"], val.get("got"), val.get("expected", sorted(rec["sel"]))),
                        dict(rec=rec, observed=val), cls="%s: %s [%s]" % (val["outcome"], rec["shape"], ",".join(rec["kinds"])))
    samples = [dict(expr=render(x["toks"]), denotes=sorted(x["sel"])) for x in recs[:: max(1, len(recs) // 4)][:4]]
    cov = dict(traces_validated_against_impl=len(recs), replays_failing=nfail, expressions_emitted=n_emitted,
               malformed=sum(1 for x in recs if x["shape"] == "BAD"), samples=samples,
               explanation="every expression of the bounded grammar (all leaves in all keyword/operator/quote spellings, negated; two-leaf shapes with every connective "
                           "spelling; three-leaf precedence shapes; regular-expression leaves; malformed productions) is evaluated by Topology.select and by "
                           "eval(select_expression) on the model topology (and, for a third of them, on a topology that reached the same content through insert_atom / selections / delete_atom_by_index) and compared with the specification's denotation")
    return ctx.finish(cov, "model_checking", ["model topology of 10 atoms (protein, water, ion; two chains/segments; repeated names and residue numbers)",
                                              "mass literals avoid exact float equality"])
