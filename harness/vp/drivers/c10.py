"""C10 — neighbour searches return exactly the atoms within the cutoff.
spec: specs/Neighbors.tla; design claims model-checked in NeighborsMC.tla; binding by trace validation
(NeighborsTrace.tla): every real compute_neighbors / compute_neighborlist call on a lattice configuration must return
exactly the set the definition gives."""
import concurrent.futures as cf
import json
import os
import re

import numpy as np

from .. import pool, tlc

G = 0.125   # nm per lattice unit
MC_CFG = """SPECIFICATION Spec
CONSTANTS MaxL = %(MaxL)d
 MaxS = %(MaxS)d
 R = %(R)d
INVARIANT KernelDecidesExactly
INVARIANT SymmetricDef
CHECK_DEADLOCK FALSE
"""
TRACE_CFG = """SPECIFICATION Spec
CHECK_DEADLOCK FALSE
"""
CELLS = [[[8, 0, 0], [0, 8, 0], [0, 0, 8]], [[6, 0, 0], [0, 9, 0], [0, 0, 12]], [[8, 0, 0], [-4, 7, 0], [0, 0, 6]], [[8, 0, 0], [4, 7, 0], [0, 0, 10]],
         [[9, 0, 0], [-3, 9, 0], [-3, -4, 8]], [[8, 0, 0], [0, 8, 0], [4, 4, 6]], [[6, 0, 0], [10, 6, 0], [13, -9, 6]], [[7, 0, 0], [2, 6, 0], [-3, 2, 9]],
         [[12, 0, 0], [0, 6, 0], [0, 0, 6]], [[6, 0, 0], [1, 12, 0], [-1, 5, 7]]]


def _faces_ok(cell, c4):
    a, b, c = [np.array(v, dtype=np.int64) for v in cell]
    vol = int(a[0] * b[1] * c[2])
    return all(c4 * int(np.dot(f, f)) <= vol * vol for f in (np.cross(a, b), np.cross(b, c), np.cross(c, a)))


CAND = 12


def _one(rs, md, base_id, ci):
    """one random configuration run through the real searches -> its two trace records (or None)"""
    out = []
    periodic = rs.rand() < 0.85
    cell = CELLS[rs.randint(len(CELLS))]
    ks = [k for k in (1, 3, 5, 7) if _faces_ok(cell, k * k)] if periodic else [1, 3, 5, 9]
    k = ks[rs.randint(len(ks))]
    n = int(rs.randint(2, 15))
    mode = rs.randint(7) if periodic else rs.randint(4)
    cm = np.array(cell)
    if mode >= 4:
        # a larger cell (integer multiple: many voxels per axis for the small cutoffs) with the atoms in a thin slab on both sides of
        # one cell face, spread over the whole face: most close pairs are neighbours only through the periodic image across that face
        # (mode 6: a cell 80 times larger, 60..130 nm wide against cutoffs of 0.3..0.45 nm -- hundreds of voxels per axis)
        cm = cm * (80 if mode == 6 else int(rs.randint(2, 4))); cell = cm.tolist()
        ks = [kk for kk in ((5, 7) if mode == 6 else (3, 5, 7, 9)) if _faces_ok(cell, kk * kk)] or [1]
        k = ks[rs.randint(len(ks))]
        n = int(rs.randint(8, 15))
    if mode == 0:      # inside the primary cell
        frac = rs.rand(n, 3)
        pos = np.floor(frac @ cm).astype(int)
    elif mode == 1:    # spread over several cells
        pos = np.floor(rs.rand(n, 3) @ cm).astype(int) + rs.randint(-3, 4, size=(n, 3)) @ cm
    elif mode == 2:    # clustered (many pairs near the cutoff), cluster centre anywhere
        ctr = rs.randint(-2, 3, size=3) @ cm + np.floor(rs.rand(3) @ cm).astype(int)
        pos = ctr + rs.randint(-(k // 2 + 2), k // 2 + 3, size=(n, 3))
    elif mode >= 4:
        ax = 2 if mode == 4 else int(rs.randint(3))
        pos = []
        for _p in range(n // 2):
            fr = 0.15 + 0.7 * rs.rand(3); fr[ax] = 0.0
            A = np.floor(fr @ cm).astype(int)                        # a spot on the face, away from the other faces ...
            A[ax] += 1                                               # ... the first atom just inside
            e = int(rs.choice([x for x in range(3) if x != ax]))     # the pair is separated by almost the cutoff along e,
            d = rs.randint(-1, 2, size=3)
            d[e] = int(rs.choice([-1, 1])) * (k // 2)
            d[ax] = -int(rs.randint(2, 4))                           # and the partner sits just outside: neighbours across the face only
            while 4 * int(d @ d) >= k * k and (abs(d[ax]) > 2 or any(d[x] for x in range(3) if x not in (ax, e))):
                if abs(d[ax]) > 2:
                    d[ax] += 1
                else:
                    d[[x for x in range(3) if x not in (ax, e)][0]] = 0
            if rs.rand() < 0.5:                                      # half of the pairs: pulled inside the cutoff along e
                while 4 * int(d @ d) >= k * k and d[e] != 0:
                    d[e] -= int(np.sign(d[e]))
            pos += [A, A + d] if rs.rand() < 0.5 else [A + d, A]      # either of the two may come first in the atom order
        pos = np.array(pos)
    else:              # on cell faces / voxel boundaries
        pos = np.floor(rs.rand(n, 3) @ cm).astype(int)
        pos[:, rs.randint(3)] = 0
        pos = pos + (rs.randint(-1, 2, size=(n, 3)) @ cm if rs.rand() < 0.5 else 0)
    # no coincident atoms (the lattice distance 0 is fine for the definition, but keep configurations physical)
    _, idx = np.unique(pos, axis=0, return_index=True)
    pos = pos[np.sort(idx)]
    n = len(pos)
    if n < 2:
        return None
    top = md.Topology(); ch = top.add_chain()
    for i in range(n):
        top.add_atom("C", md.element.carbon, top.add_residue("X", ch))
    t = md.Trajectory((pos * G).astype(np.float32)[None], top)
    if periodic:
        t.unitcell_vectors = (cm * G).astype(np.float32)[None]
    cutoff = k / 2.0 * G
    allidx = list(range(n))
    q = sorted(rs.choice(n, size=rs.randint(1, n + 1), replace=False).tolist())
    h = allidx if rs.rand() < 0.5 else sorted(rs.choice(n, size=rs.randint(1, n + 1), replace=False).tolist())
    common = dict(cell=cell, pos=pos.tolist(), c4=k * k, periodic=bool(periodic))
    try:
        got = md.compute_neighbors(t, cutoff, np.array(q), haystack_indices=np.array(h), periodic=periodic)[0]
        out.append(dict(common, id=base_id + 2 * ci, kind="neighbors", query=[i + 1 for i in q], haystack=[i + 1 for i in h],
                         obs=[int(i) + 1 for i in got], mode=int(mode)))
    except Exception as e:  # noqa
        out.append(dict(common, id=base_id + 2 * ci, kind="neighbors", query=[i + 1 for i in q], haystack=[i + 1 for i in h], obs=[-1], mode=int(mode),
                         exc="%s: %s" % (type(e).__name__, e)))
    try:
        nl = md.compute_neighborlist(t, cutoff, frame=0, periodic=periodic)
        out.append(dict(common, id=base_id + 2 * ci + 1, kind="neighborlist", query=[], haystack=[], obs=[[int(j) + 1 for j in row] for row in nl], mode=int(mode)))
    except Exception as e:  # noqa
        out.append(dict(common, id=base_id + 2 * ci + 1, kind="neighborlist", query=[], haystack=[], obs=[[-1]] * n, mode=int(mode), exc="%s: %s" % (type(e).__name__, e)))
    # independent second assertion: the same relation from compute_distances (inside the comparable range)
    pairs = np.array([(i, j) for i in range(n) for j in range(i + 1, n)])
    d = md.compute_distances(t, pairs, periodic=periodic)[0]
    rel = set((int(i) + 1, int(j) + 1) for (i, j), dd in zip(pairs, d) if dd < cutoff)
    nlrel = set((i + 1, int(j) + 1) for i, row in enumerate(nl) for j in row if i < j) if "exc" not in out[-1] else None
    out[-1]["agrees_with_distances"] = (nlrel == rel) if nlrel is not None else False
    if periodic:
        fr = np.linalg.solve(cm.T.astype(float), pos.T.astype(float)).T
        out[-1]["pre_onface"] = bool((np.abs(fr - np.round(fr)) < 1e-9).any())
    return out


def _gen(task):
    """generate configurations, run the real searches, return trace records.  Guided sampling: for every record slot up to CAND
    candidate configurations are drawn and the first one on which the neighbour list disagrees with compute_distances in float is
    kept (else the last): the pre-screen only decides WHICH configurations are submitted, the verdict is NeighborsTrace.tla's"""
    import mdtraj as md
    seed, n_conf, base_id = task
    rs = np.random.RandomState(seed)
    recs = []
    for ci in range(n_conf):
        best = None
        for _attempt in range(CAND):
            r = _one(rs, md, base_id, ci)
            if r is None:
                continue
            best = r
            if not r[-1].get("agrees_with_distances", True) and not r[-1].get("pre_onface", False):
                break           # (disagreements with an atom exactly on a cell face are the open finding: keep looking for others)
        recs += best or []
    return recs


def run(ctx):
    mc = (3, 1, 4) if not ctx.thorough else (4, 2, 4)
    ctx.tlc("NeighborsMC", "NeighborsMC.cfg", workers=16, timeout=3000, cfg_text=MC_CFG % dict(MaxL=mc[0], MaxS=mc[1], R=mc[2]))
    n_tasks, per = (16, 60) if not ctx.thorough else (32, 400)
    tasks = [(ctx.seed * 1000 + i, per, i * 100000) for i in range(n_tasks)]
    if ctx.replay:
        rp = json.load(open(ctx.replay))
        recs = [rp["first"]["detail"]["rec"]]
    else:
        res = pool.run_tasks(_gen, tasks, workers=16, timeout=900, batch=1)
        recs = []
        for st, val in res:
            if st != "ok":
                ctx.machinery_failure("configuration generation failed: %s %s" % (st, str(val)[:300]))
            recs += val
    byid = {r["id"]: r for r in recs}
    # ---- trace validation: several TLC processes in parallel, one trace file each ----------------------------------
    parts = 8
    files = []
    for p in range(parts):
        chunk = recs[p::parts]
        if not chunk:
            continue
        fn = os.path.join(ctx.scratch, "ntrace-%d.json" % p)
        with open(fn, "w") as f:
            json.dump({"recs": [{k: r[k] for k in ("id", "kind", "cell", "pos", "c4", "periodic", "query", "haystack", "obs")} for r in chunk]}, f)
        files.append(fn)

    def _val(i_fn):
        i, fn = i_fn
        return tlc.run("NeighborsTrace", "NT%d.cfg" % i, os.path.join(ctx.scratch, "tlc-nt%d" % i), workers=1, cfg_text=TRACE_CFG,
                       env={"TRACE_FILE": fn}, timeout=3000, heap="2g")
    with cf.ThreadPoolExecutor(max_workers=8) as ex:
        outs = list(ex.map(_val, enumerate(files)))
    accepted = set()
    rejected = {}
    for r in outs:
        ctx.tlc_runs.append(dict(module="NeighborsTrace", states=r.distinct, transitions=r.generated, wall_s=round(r.wall, 1), ok=r.ok))
        if not r.ok:
            ctx.machinery_failure("NeighborsTrace failed: %s" % (r.violation or r.out)[-800:])
        ctx.states += r.distinct; ctx.transitions += r.generated
        for line in r.prints:
            m = re.match(r'<<"ACCEPT", (\d+)>>', line)
            if m:
                accepted.add(int(m.group(1)))
                continue
            m = re.match(r'<<"REJECT", (\d+), (.*)', line, re.S)
            if m:
                rejected[int(m.group(1))] = m.group(2)
    for rid, why in sorted(rejected.items()):
        rec = byid[rid]
        key = None
        if rec["kind"] == "neighborlist":
            mm = re.match(r'"neighborlist", (\d+), (\d+), (TRUE|FALSE), (TRUE|FALSE), (TRUE|FALSE)', why)
            only_missing = mm and int(mm.group(2)) == 0 and mm.group(3) == "TRUE" and int(mm.group(1)) > 0
            if only_missing and mm.group(5) == "TRUE":
                key = "neighborlist:nl_atom_on_cell_face"              # only missing pairs, each with an atom exactly on a face of the cell
            elif only_missing and mm.group(4) == "TRUE":
                key = "neighborlist:nl_atoms_outside_primary_cell"     # only missing pairs, each with an atom outside the primary cell
        ctx.discrepancy(key, "%s on cell=%s periodic=%s c4=%d pos=%s: %s %s" % (rec["kind"], rec["cell"], rec["periodic"], rec["c4"], rec["pos"], why, rec.get("exc", "")),
                        dict(rec=rec, verdict=why), cls="%s: %s" % (rec["kind"], "raised" if "exc" in rec else re.sub(r"\{[^}]*\}", "{..}", why)[:80]))
    unseen = [r["id"] for r in recs if r["id"] not in accepted and r["id"] not in rejected]
    if unseen:
        ctx.machinery_failure("trace validation lost %d records" % len(unseen))
    for r in recs:
        if r["kind"] == "neighborlist" and r["id"] in accepted and not r.get("agrees_with_distances", True):
            ctx.discrepancy(None, "neighbour list equals the definition but compute_distances disagrees: %s" % r["pos"], dict(rec=r), cls="compute_distances disagrees with neighbour list")
    cov = dict(traces_validated_against_impl=len(recs), accepted=len(accepted), rejected=len(rejected),
               outside_primary_cell=sum(1 for r in recs if r["mode"] in (1, 2, 3)), nonperiodic=sum(1 for r in recs if not r["periodic"]),
               samples=[{k: recs[i][k] for k in ("kind", "cell", "pos", "c4", "periodic", "query", "haystack", "obs")} for i in range(0, min(len(recs), 3))],
               explanation="design claims (the wrap-only kernel of compute_neighbors and the distance kernel decide 'within cutoff' exactly in the comparable range) model-checked "
                           "over all small cells x displacements x cutoffs; real compute_neighbors / compute_neighborlist calls on random lattice configurations (inside the cell, "
                           "spread over cells, clustered at the cutoff, on cell faces; 10 cell shapes; no cell) recorded and validated against the definition by NeighborsTrace.tla")
    return ctx.finish(cov, "model_checking", ["lattice step 0.125 nm; cutoffs are half-integers of the lattice step so no pair is at the threshold; 2..14 atoms per configuration"])
