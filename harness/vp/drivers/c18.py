"""C18 — an open trajectory file behaves as a cursor over its frames.
spec: specs/Cursor.tla (+ CursorTrace.tla for known-finding triage).  Binding: transition-coverage replay."""
import json
import os
import re

import numpy as np

from .. import pool, trajgen
from ..core import stratified_sample

FORMATS = {  # ext -> (HasLen, CanSeek, HasTell)
    "h5": (True, True, True), "xtc": (True, True, True), "trr": (True, True, True), "dcd": (True, True, True), "nc": (True, True, True),
    "xyz": (True, True, True), "dtr": (True, True, True), "mdcrd": (False, True, True), "lammpstrj": (False, True, True),
    "arc": (False, False, False),
    "vcols.lammpstrj": (False, True, True),   # a legal dump whose ATOMS columns are not in the default order (id type vx vy vz x y z)
    "stale.dcd": (True, True, True),      # header NSET field disagrees with the frames present (mdtraj recomputes it from the file size)
}
AIDX = [0, 2, 5]

CFG = """SPECIFICATION Spec
CONSTANTS N = %(N)d
 Handles = {1, 2}
 D = %(D)d
 HasLen = %(HasLen)s
 CanSeek = %(CanSeek)s
 HasTell = %(HasTell)s
 Dev = {}
%(view)s
ACTION_CONSTRAINT %(emit)s
INVARIANT PosRange
INVARIANT ReadIsNext
INVARIANT LenConstant
INVARIANT TellIsPos
PROPERTY HandlesIndependent
CHECK_DEADLOCK FALSE
"""
TRACE_CFG = """SPECIFICATION TSpec
CONSTANTS N = %(N)d
 Handles = {1, 2}
 D = 1000
 HasLen = %(HasLen)s
 CanSeek = %(CanSeek)s
 HasTell = %(HasTell)s
 Dev = {%(dev)s}
CHECK_DEADLOCK FALSE
"""

_files = {}


def _b(x):
    return "TRUE" if x else "FALSE"


def _prepare(scratch, N, shape=0):
    """one file per format with N frames; returns {ext: (path, ref_x_native, open_kwargs)}"""
    d = os.path.join(scratch, "files-%d-%d" % (N, shape))
    os.makedirs(d, exist_ok=True)
    out = {}
    for ext in FORMATS:
        path = os.path.join(d, "t." + ext)
        trajgen.set_shape(shape, ext)
        if ext == "arc":
            ref = trajgen.make_arc(path, N)
        elif ext == "vcols.lammpstrj":
            n_at = trajgen.NA
            with open(path, "w") as fh:
                for fr in range(N):
                    fh.write("ITEM: TIMESTEP\n%d\nITEM: NUMBER OF ATOMS\n%d\nITEM: BOX BOUNDS pp pp pp\n0.0 50.0\n0.0 60.0\n0.0 70.0\n" % (fr, n_at))
                    fh.write("ITEM: ATOMS id type vx vy vz x y z\n")
                    for a in range(n_at):
                        fh.write("%d 1 %.3f %.3f %.3f %.3f %.3f %.3f\n" % (a + 1, -7.0 - a, 0.5 * fr, 3.25, (fr + 1) * 1.0, (a + 1) * 0.1, 5.0))
            ref = [(f + 1) * 0.1 * 10.0 for f in range(N)]
        elif ext == "stale.dcd":
            import struct
            trajgen.write_file(path, N)
            with open(path, "r+b") as f:       # CHARMM header: int32 block length, "CORD", NSET ...
                f.seek(8)
                f.write(struct.pack("<i", 0))
            ref = [(f + 1) * 0.1 * 10.0 for f in range(N)]
        else:
            trajgen.write_file(path, N)
            ref = [(f + 1) * 0.1 * trajgen.scale_of(ext) for f in range(N)]
        out[ext] = (path, ref, {"n_atoms": trajgen.NA} if ext == "mdcrd" else {})
    trajgen.set_shape(0)
    return out


def _ids(r, ref):
    a = r.coordinates if hasattr(r, "coordinates") else (r[0] if isinstance(r, tuple) else r)
    a = np.asarray(a)
    if a.ndim != 3 or a.shape[0] == 0:
        return []
    out = []
    for v in a[:, 0, 0]:
        dd = [abs(float(v) - x) for x in ref]
        k = int(np.argmin(dd))
        out.append(k if dd[k] < 2e-3 * max(1.0, abs(ref[k])) + 1e-3 else -1)
    return out


def _replay(task):
    """returns None when every step agrees with the specification, else the observed trace"""
    import mdtraj as md
    ext, ai, N, hist = task[:4]
    shape = task[4] if len(task) > 4 else 0
    path, ref, kw = _files[(N, shape)][ext]
    hs = {1: md.open(path, **kw), 2: md.open(path, **kw)}
    rk = {"atom_indices": np.array(AIDX)} if ai else {}
    obs = []
    bad = None
    try:
        for k, s in enumerate(hist):
            f = hs[s["h"]]
            op = s["op"]
            try:
                if op == "read":
                    got = _ids(f.read(s["arg"], **rk), ref)
                elif op == "readall":
                    got = _ids(f.read(**rk), ref)
                elif op == "seek":
                    f.seek(s["arg"]); got = []
                elif op == "seekrel":
                    f.seek(s["arg"], 1); got = []
                elif op == "tell":
                    got = [int(f.tell())]
                elif op == "len":
                    got = [int(len(f))]
                p = int(f.tell()) if FORMATS[ext][2] else s["pos"]
                obs.append(dict(h=s["h"], op=op, arg=s["arg"], ret=got, pos=p))
                if bad is None and (got != list(s["ret"]) or p != s["pos"]):
                    bad = k
            except Exception as e:  # noqa
                try:
                    p = int(f.tell())
                except Exception:
                    p = -1
                obs.append(dict(h=s["h"], op="exc:" + op, arg=s["arg"], ret=[], pos=p, exc=type(e).__name__))
                if bad is None:
                    bad = k
                break
    finally:
        for f in hs.values():
            try:
                f.close()
            except Exception:
                pass
    if bad is None:
        return None
    return dict(step=bad, expected=hist[bad], observed=obs)


def _emit(ctx, N, D, caps, view, sim=None, depth=None):
    cfg = CFG % dict(N=N, D=D, HasLen=_b(caps[0]), CanSeek=_b(caps[1]), HasTell=_b(caps[2]), view="VIEW View" if view else "",
                     emit="EmitLast" if sim else "Emit")
    name = "Cursor_N%d_D%d_%s%s%s%s.cfg" % (N, D, _b(caps[0])[0], _b(caps[1])[0], _b(caps[2])[0], "v" if view else ("s" if sim else "a"))
    kw = dict(simulate=sim, depth=depth, seed=ctx.seed + 1) if sim else {}
    r = ctx.tlc("Cursor", name, cfg_text=cfg, workers=1 if (sim or (view and not ctx.thorough)) else 8, **kw)
    return [t["hist"] for t in r.tr]


def run(ctx):
    global _files
    plans = []   # (N, D, view, sim, depth)
    if ctx.thorough:
        plans = [(1, 4, True, None, None), (2, 5, True, None, None), (3, 5, True, None, None), (4, 6, True, None, None),
                 (3, 3, False, None, None), (6, 25, False, 300, 26)]
    else:
        plans = [(3, 4, True, None, None), (2, 2, False, None, None), (5, 12, False, 40, 13)]
    capsets = sorted(set(FORMATS.values()))
    tasks = []
    n_tests = {}
    for (N, D, view, sim, depth) in plans:
        for shape in range(len(trajgen.SHAPES)):
            if (N, shape) not in _files:
                try:
                    _files[(N, shape)] = _prepare(ctx.scratch, N, shape)
                except Exception as e:
                    ctx.machinery_failure("cannot prepare test files: %r" % (e,))
        for caps in capsets:
            tests = _emit(ctx, N, D, caps, view, sim, depth)
            n_tests[(N, D, view, bool(sim), caps)] = len(tests)
            for ext, c in FORMATS.items():
                if c != caps:
                    continue
                for ai in (False, True, True):
                    for h in tests:
                        tasks.append((ext, ai, N, h, 0))
                if ext != "arc":          # second file shape (20 atoms, no box records where the format allows it)
                    for ai in (False, True):
                        for h in tests:
                            tasks.append((ext, ai, N, h, 1))
    if ctx.replay:
        with open(ctx.replay) as f:
            rp = json.load(f)
        tasks = [tuple(rp["first"]["detail"]["task"])]
        sh = tasks[0][4] if len(tasks[0]) > 4 else 0
        if (tasks[0][2], sh) not in _files:
            _files[(tasks[0][2], sh)] = _prepare(ctx.scratch, tasks[0][2], sh)
    elif not ctx.thorough and len(tasks) > 50000:
        tasks = stratified_sample(tasks, lambda t: (t[0], t[1], t[4], t[3][-1]["op"]), 50000, ctx.rng)
    res = pool.run_tasks(_replay, tasks, workers=16, timeout=60, batch=64)
    fails = []
    for t, (st, val) in zip(tasks, res):
        if st == "ok" and val is None:
            continue
        if st != "ok":
            val = dict(step=-1, expected=None, observed=[dict(h=1, op=st, arg=0, ret=[], pos=-1)], error=str(val)[:400])
        fails.append((t, val))
    # ---- triage: is a failing observation exactly a behaviour of the deviation-enabled spec? -------------
    by = {}
    for t, v in fails:
        by.setdefault((t[0], t[2]), []).append((t, v))
    for (ext, N), lst in sorted(by.items()):
        devs = sorted(k.split(":", 1)[1] for k in ctx.open_findings if k.startswith(ext + ":"))
        verdict = {}
        if devs:
            tf = os.path.join(ctx.scratch, "trace-%s-%d.json" % (ext, N))
            with open(tf, "w") as f:
                json.dump({"traces": [[{k: e[k] for k in ("h", "op", "arg", "ret", "pos")} for e in v["observed"]]
                                      for _, v in lst]}, f)
            caps = FORMATS[ext]
            r = ctx.tlc("CursorTrace", "CT_%s_%d.cfg" % (ext, N), must_pass=False, workers=1,
                        cfg_text=TRACE_CFG % dict(N=N, HasLen=_b(caps[0]), CanSeek=_b(caps[1]), HasTell=_b(caps[2]),
                                                  dev=", ".join('"%s"' % d for d in devs)),
                        env={"TRACE_FILE": tf})
            if r.rc != 0:
                ctx.notes.append("CursorTrace run failed for %s: %s" % (ext, (r.violation or r.out)[-500:]))
            for line in r.prints:
                m = re.match(r'<<"ACCEPT", (\d+), \{(.*)\}>>', line)
                if m:
                    verdict[int(m.group(1))] = sorted(x.strip().strip('"') for x in m.group(2).split(",") if x.strip())
        for i, (t, v) in enumerate(lst):
            used = verdict.get(i + 1)
            # known only if the deviation-enabled spec accepts the whole observed history and every deviation it
            # needed is an open finding; the first one needed names the finding it is counted under
            key = "%s:%s" % (ext, used[0]) if used and all("%s:%s" % (ext, u) in ctx.open_findings for u in used) else None
            for u in (used or [])[1:]:
                if key:
                    ctx.known_hits["%s:%s" % (ext, u)] = ctx.known_hits.get("%s:%s" % (ext, u), 0) + 1
            what = "%s%s N=%d: step %d expected %s observed %s" % (
                ext, "[atom_indices]" if t[1] else "", N, v["step"], json.dumps(v["expected"]),
                json.dumps(v["observed"][v["step"]] if 0 <= v["step"] < len(v["observed"]) else v["observed"][-1:]))
            ob = v["observed"][v["step"]] if 0 <= v["step"] < len(v["observed"]) else v["observed"][-1]
            ctx.discrepancy(key, what, dict(task=list(t), result=v), cls="%s after %s: %s" % (
                ext, (v["expected"] or {}).get("op"), ob["op"] if ob["op"].startswith(("exc", "hang", "died", "err")) else "wrong result/position"))
    passed = len(tasks) - len(fails)
    samples = [dict(format=t[0], atom_indices=t[1], N=t[2], history=t[3]) for t in tasks[:: max(1, len(tasks) // 3)][:3]]
    cov = dict(traces_validated_against_impl=len(tasks), replays_agreeing=passed, replays_failing=len(fails),
               emitted_tests={str(k): v for k, v in n_tests.items()}, formats=sorted(FORMATS), samples=samples,
               explanation="every transition of the bounded Cursor model (two handles) replayed on each seekable format "
                           "with and without atom_indices; after every call returned frame ids and tell() are compared")
    return ctx.finish(cov, "model_checking",
                      ["test files are written by mdtraj's own writers and verified by a full md.load before use",
                       "arc file is cut from tests/data/nitrogen.arc"])
