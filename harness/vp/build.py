"""Rebuild mdtraj's compiled extensions from /repo's *current working tree*.

Cython is not available offline, so the Cython-generated translation unit that sits next to each
.pyx (xtc.c, _geometry.cpp, ...) is compiled together with the hand-written C/C++ sources, using the
flags recorded in the generated file's "Cython Metadata" header.  Objects and shared objects are cached
by content hash under /verif/.cache/build; nothing in /repo is ever written.
"""
import concurrent.futures as cf
import hashlib
import json
import os
import subprocess
import sys
import sysconfig

REPO = os.environ.get("VP_REPO", "/repo")
VERIF = os.path.dirname(os.path.dirname(os.path.dirname(os.path.abspath(__file__))))
CACHE = os.path.join(VERIF, ".cache", "build")

# module name -> generated translation unit (relative to REPO)
GENERATED = {
    "mdtraj.geometry._geometry": "mdtraj/geometry/src/_geometry.cpp",
    "mdtraj.geometry.neighborlist": "mdtraj/geometry/neighborlist.cpp",
    "mdtraj.geometry.neighbors": "mdtraj/geometry/neighbors.cpp",
    "mdtraj.geometry.drid": "mdtraj/geometry/drid.cpp",
    "mdtraj._rmsd": "mdtraj/rmsd/_rmsd.cpp",
    "mdtraj._lprmsd": "mdtraj/rmsd/_lprmsd.cpp",
    "mdtraj.formats.xtc": "mdtraj/formats/xtc/xtc.c",
    "mdtraj.formats.trr": "mdtraj/formats/xtc/trr.c",
    "mdtraj.formats.dcd": "mdtraj/formats/dcd/dcd.c",
    "mdtraj.formats.dtr": "mdtraj/formats/dtr/dtr.cpp",
}
HDR_EXT = (".h", ".hpp", ".hh", ".pxi_unused")
EXT_SUFFIX = sysconfig.get_config_var("EXT_SUFFIX")


class BuildError(Exception):
    pass


def _metadata(path):
    with open(path, "r", errors="replace") as f:
        head = f.read(20000)
    a = head.find("BEGIN: Cython Metadata")
    b = head.find("END: Cython Metadata")
    if a < 0 or b < 0:
        raise BuildError("no Cython metadata in " + path)
    return json.loads(head[a + len("BEGIN: Cython Metadata"):b])["distutils"]


def _sha(*parts):
    h = hashlib.sha256()
    for p in parts:
        h.update(p if isinstance(p, bytes) else p.encode())
        h.update(b"\0")
    return h.hexdigest()[:24]


def _headers_digest(dirs):
    h = hashlib.sha256()
    for d in sorted(set(dirs)):
        if not os.path.isdir(d):
            continue
        for root, _, files in sorted(os.walk(d)):
            for fn in sorted(files):
                if fn.endswith((".h", ".hpp", ".hh")):
                    p = os.path.join(root, fn)
                    h.update(p.encode())
                    with open(p, "rb") as f:
                        h.update(f.read())
    return h.hexdigest()


def _plan(mod):
    import numpy
    gen = os.path.join(REPO, GENERATED[mod])
    if not os.path.exists(gen):
        raise BuildError("generated source missing: " + gen)
    md = _metadata(gen)
    cxx = md.get("language") == "c++"
    incs = []
    for d in md.get("include_dirs", []):
        if "site-packages/numpy" in d:
            continue
        incs.append(os.path.join(REPO, d))
    np_inc = numpy.get_include()
    py_inc = sysconfig.get_paths()["include"]
    srcs = []
    for s in md["sources"]:
        if s.endswith(".pyx"):
            srcs.append(gen)
        else:
            srcs.append(os.path.join(REPO, s))
    flags = [a for a in md.get("extra_compile_args", [])]
    libs = md.get("libraries", [])
    hdr_dirs = list(incs) + [os.path.dirname(s) for s in srcs]
    hd = _headers_digest(hdr_dirs)
    return dict(mod=mod, cxx=cxx, incs=incs + [np_inc, py_inc], srcs=srcs, flags=flags, libs=libs,
                hd=hd, link_args=md.get("extra_link_args", []), defs=md.get("define_macros", []))


def _compile(plan, src):
    is_cxx = src.endswith((".cpp", ".cc", ".cxx"))
    cc = "g++" if is_cxx else "gcc"
    flags = [f for f in plan["flags"] if is_cxx or not f.startswith("--std=c++")]
    with open(src, "rb") as f:
        body = f.read()
    key = _sha(body, plan["hd"], " ".join(flags), cc, src)
    obj = os.path.join(CACHE, "obj", key + ".o")
    if os.path.exists(obj):
        return obj, False
    os.makedirs(os.path.dirname(obj), exist_ok=True)
    tmp = obj + ".%d.%s.tmp" % (os.getpid(), os.urandom(4).hex())
    cmd = [cc, "-c", src, "-o", tmp, "-fPIC", "-DNDEBUG", "-g0", "-fwrapv", "-O2"] + flags
    for k in plan["defs"]:
        cmd.append("-D%s=%s" % (k[0], k[1]) if k[1] is not None else "-D" + k[0])
    for i in plan["incs"]:
        cmd += ["-I", i]
    r = subprocess.run(cmd, cwd=REPO, capture_output=True, text=True)
    if r.returncode != 0:
        raise BuildError("compile failed: %s\n%s" % (" ".join(cmd), r.stderr[-4000:]))
    os.replace(tmp, obj)
    return obj, True


def build(mods=None, verbose=False):
    """Build (or fetch from cache) the extensions; returns {module name: path to .so}."""
    mods = list(mods or GENERATED)
    plans = [_plan(m) for m in mods]
    jobs = {}
    with cf.ThreadPoolExecutor(max_workers=16) as ex:
        for p in plans:
            for s in p["srcs"]:
                jobs[(p["mod"], s)] = ex.submit(_compile, p, s)
        objs = {}
        compiled = 0
        for k, fut in jobs.items():
            o, fresh = fut.result()
            objs[k] = o
            compiled += fresh
    out = {}
    for p in plans:
        olist = [objs[(p["mod"], s)] for s in p["srcs"]]
        key = _sha(*olist, " ".join(p["libs"]))
        leaf = p["mod"].split(".")[-1]
        so = os.path.join(CACHE, "so", key, leaf + EXT_SUFFIX)
        if not os.path.exists(so):
            os.makedirs(os.path.dirname(so), exist_ok=True)
            tmp = so + ".%d.%s.tmp" % (os.getpid(), os.urandom(4).hex())
            cmd = ["g++", "-shared", "-o", tmp] + olist + ["-l" + l for l in p["libs"]] + p["link_args"]
            if "-fopenmp" in p["flags"]:
                cmd.append("-fopenmp")
            r = subprocess.run(cmd, capture_output=True, text=True)
            if r.returncode != 0:
                raise BuildError("link failed: %s\n%s" % (" ".join(cmd), r.stderr[-4000:]))
            os.replace(tmp, so)
        out[p["mod"]] = so
    if verbose:
        print("build: %d objects compiled, %d modules ready" % (compiled, len(out)), file=sys.stderr)
    return out


def install_overlay(mapping):
    """Make `import mdtraj...` load the rebuilt extensions instead of the in-tree .so files."""
    import importlib.abc
    import importlib.machinery
    import importlib.util

    class Finder(importlib.abc.MetaPathFinder):
        def find_spec(self, fullname, path=None, target=None):
            so = mapping.get(fullname)
            if so is None:
                return None
            loader = importlib.machinery.ExtensionFileLoader(fullname, so)
            return importlib.util.spec_from_file_location(fullname, so, loader=loader)

    for f in list(sys.meta_path):
        if type(f).__name__ == "Finder" and getattr(f, "_vp", False):
            sys.meta_path.remove(f)
    fd = Finder()
    fd._vp = True
    sys.meta_path.insert(0, fd)


def pyx_note():
    """Hashes of Cython sources (informational; they cannot be rebuilt offline)."""
    res = {}
    for root, _, files in os.walk(os.path.join(REPO, "mdtraj")):
        for fn in files:
            if fn.endswith((".pyx", ".pxi", ".pxd")):
                p = os.path.join(root, fn)
                with open(p, "rb") as f:
                    res[os.path.relpath(p, REPO)] = hashlib.sha256(f.read()).hexdigest()[:16]
    return res


def activate(verbose=False):
    """build + overlay + make sure /repo is what gets imported. Call before `import mdtraj`."""
    if "mdtraj" in sys.modules:
        raise RuntimeError("activate() must run before mdtraj is imported")
    mapping = build(verbose=verbose)
    install_overlay(mapping)
    if REPO not in sys.path:
        sys.path.insert(0, REPO)
    return mapping


if __name__ == "__main__":
    import time
    t0 = time.time()
    m = build(verbose=True)
    for k, v in m.items():
        print(k, v)
    print("%.1fs" % (time.time() - t0))
