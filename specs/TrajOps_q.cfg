SPECIFICATION Spec
CONSTANTS F = 3
 A = 2
 Obj = {1,2,3}
 D = 2
 FixSlice = TRUE
 FixAtomSliceInplace = TRUE
VIEW View
ACTION_CONSTRAINT Emit
INVARIANT CacheSound
INVARIANT FieldLengths
INVARIANT NoSharedXyz
PROPERTY Independent
CHECK_DEADLOCK FALSE
