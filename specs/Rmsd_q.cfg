SPECIFICATION Spec
CONSTANTS N = 3
 R = 1
INVARIANT SelfRoot
INVARIANT Symmetric
INVARIANT RotInvariant
INVARIANT RotatedIsZero
INVARIANT PermInvariant
INVARIANT CauchySchwarz
INVARIANT Mirror
CHECK_DEADLOCK FALSE
