---------------------------- MODULE Topology ----------------------------
(* Property C04: Topology object graphs.
   Atom objects live in a heap keyed by uid and carry a mutable index (as Atom.index does: insert/delete
   renumber the OBJECTS); a topology holds sequences of uids, its bonds hold uids.  Value(h, t) is what a
   user reads through the public iterators.  Transformations (copy, deepcopy, pickle, subset, join, data-frame
   round trip, HDF5 and PDB files) must produce the expected image of the value on FRESH atom objects with
   bonds re-pointed to them; edits (delete_atom_by_index, add_bond) are probes: after an edit of one
   topology every other topology's value must be unchanged.
   Dev names deviations of the pinned code that are recorded as known findings (carrier losses). *)
EXTENDS Integers, Sequences, FiniteSets, TLC, Json, SequencesExt
CONSTANTS Obj, D, Dev,
          Family,       \* names of the operations explored in this configuration
          KeepFamily    \* atom subsets explored by Subset: {} means every non-empty subset, otherwise exactly these
VARIABLES heap,   \* [uid -> [name, el, serial, idx]]
          top,    \* [Obj -> Null or [chains: Seq([cid, res: Seq([name, resSeq, seg, atoms: Seq(uid)])]), atoms: Seq(uid), bonds: Seq([u, v, ty, ord])]]
          nxt, hist
vars == <<heap, top, nxt, hist>>
Null == [null |-> TRUE]
Live(x) == "atoms" \in DOMAIN top[x]
Log(op, x, y, dst, arg) == hist' = Append(hist, [op |-> op, x |-> x, y |-> y, dst |-> dst, arg |-> arg])
AtomRec(h, u) == [name |-> h[u].name, el |-> h[u].el, serial |-> h[u].serial]
\* the user-visible content of a topology
Value(h, t) == [chains |-> [c \in 1..Len(t.chains) |-> [cid |-> t.chains[c].cid,
                   res |-> [r \in 1..Len(t.chains[c].res) |-> [name |-> t.chains[c].res[r].name, resSeq |-> t.chains[c].res[r].resSeq,
                            seg |-> t.chains[c].res[r].seg, atoms |-> [a \in 1..Len(t.chains[c].res[r].atoms) |-> AtomRec(h, t.chains[c].res[r].atoms[a])]]]]],
                index |-> [a \in 1..Len(t.atoms) |-> h[t.atoms[a]].idx],
                bonds |-> { [a |-> h[t.bonds[b].u].idx, b |-> h[t.bonds[b].v].idx, ty |-> t.bonds[b].ty, ord |-> t.bonds[b].ord] : b \in 1..Len(t.bonds) }]
\* starting topology: 2 chains with explicit ids, repeated resSeq, non-contiguous serials, a virtual site,
\* typed/ordered bonds within a residue, across residues and across chains
A0 == <<[name |-> "N", el |-> "N", serial |-> 10, idx |-> 0], [name |-> "CA", el |-> "C", serial |-> 12, idx |-> 1],
        [name |-> "CA", el |-> "C", serial |-> 20, idx |-> 2], [name |-> "O", el |-> "O", serial |-> 31, idx |-> 3],
        [name |-> "OM", el |-> "VS", serial |-> 32, idx |-> 4]>>
T0 == [chains |-> << [cid |-> "X", res |-> << [name |-> "ALA", resSeq |-> 7, seg |-> "S1", atoms |-> <<1, 2>>], [name |-> "GLY", resSeq |-> 7, seg |-> "S1", atoms |-> <<3>>] >>],
                     [cid |-> "Y", res |-> << [name |-> "GLY", resSeq |-> 7, seg |-> "S2", atoms |-> <<4, 5>>] >>] >>,
       atoms |-> <<1, 2, 3, 4, 5>>,
       bonds |-> << [u |-> 1, v |-> 2, ty |-> "single", ord |-> 1], [u |-> 2, v |-> 3, ty |-> "amide", ord |-> 0],
                    [u |-> 3, v |-> 4, ty |-> "double", ord |-> 2], [u |-> 4, v |-> 5, ty |-> "none", ord |-> 0] >>]
Init == heap = [u \in 1..5 |-> A0[u]] /\ top = [x \in Obj |-> IF x = 1 THEN T0 ELSE Null] /\ nxt = 6 /\ hist = <<>>
Pos(seq, e) == CHOOSE i \in 1..Len(seq) : seq[i] = e
SelSeq(seq, P(_)) == LET F[i \in 0..Len(seq)] == IF i = 0 THEN <<>> ELSE IF P(seq[i]) THEN Append(F[i-1], seq[i]) ELSE F[i-1] IN F[Len(seq)]
\* ---- the image of a topology restricted to the atoms keepIdx, on fresh atom objects base, base+1, ... with indices
\* off, off+1, ... (Copy = everything).  cap says what a carrier can hold. --------------------------------------
FullCap == [cid |-> TRUE, serial |-> "keep", battr |-> TRUE, bonds |-> TRUE]
SubsetOf(h, t, keepIdx, base, off, cap) ==
  LET kept == SelSeq(t.atoms, LAMBDA u : h[u].idx \in keepIdx)
      new(u) == base + Pos(kept, u) - 1                       \* fresh uid of the copy of atom u
      IsKept(u) == \E i \in 1..Len(kept) : kept[i] = u
      res2(r) == [name |-> r.name, resSeq |-> r.resSeq, seg |-> r.seg,
                  atoms |-> LET ks == SelSeq(r.atoms, IsKept) IN [i \in 1..Len(ks) |-> new(ks[i])]]
      \* a chain without identifier gets SOME one-letter name in a PDB file: "?" = unspecified
      ch2(c) == [cid |-> IF cap.cid THEN (IF c.cid = "" /\ ~cap.bonds THEN "?" ELSE c.cid) ELSE "",
                 res |-> SelSeq([i \in 1..Len(c.res) |-> res2(c.res[i])], LAMBDA r : Len(r.atoms) > 0)]
      chs == SelSeq([i \in 1..Len(t.chains) |-> ch2(t.chains[i])], LAMBDA c : Len(c.res) > 0)
      \* PDB writer (deviation pdb_renumbers_serial): serials 1..n with one number consumed by the TER record after each chain
      TerBefore(w) == Cardinality({ci \in 1..Len(chs) : \A ri \in 1..Len(chs[ci].res) : \A ai \in 1..Len(chs[ci].res[ri].atoms) : chs[ci].res[ri].atoms[ai] < w})
      bnds == IF cap.bonds THEN SelSeq(t.bonds, LAMBDA b : IsKept(b.u) /\ IsKept(b.v)) ELSE <<>>
  IN [t2 |-> [chains |-> chs, atoms |-> [i \in 1..Len(kept) |-> base + i - 1],
              bonds |-> [i \in 1..Len(bnds) |-> [u |-> new(bnds[i].u), v |-> new(bnds[i].v),
                                                 ty |-> IF cap.battr THEN bnds[i].ty ELSE "none", ord |-> IF cap.battr THEN bnds[i].ord ELSE 0]]],
      h2 |-> [u \in (DOMAIN h) \cup (base..(base + Len(kept) - 1)) |->
                 IF u \in DOMAIN h THEN h[u]
                 ELSE [h[kept[u - base + 1]] EXCEPT !.idx = off + u - base,
                                                    !.serial = IF cap.serial = "keep" THEN @
                                                               \* (the writer renumbers only topologies with two or more chains, or atoms that carry no serial)
                                                               ELSE IF cap.serial = "renumber" THEN (IF Len(chs) >= 2 \/ @ = 0 THEN u - base + 1 + TerBefore(u) ELSE @) ELSE 0]],
      n |-> Len(kept)]
All(t) == 0..(Len(t.atoms) - 1)
\* edits are probes: a transformation is only taken FROM a topology that has not been edited (the edited object itself is not
\* constrained), but may follow edits of other objects -- e.g. load a file, edit the result, load the same file again
Unedited(x) == \A i \in 1..Len(hist) : ~(hist[i].op \in {"delete_atom", "add_bond"} /\ hist[i].x = x)
NoEditYet == TRUE
\* ---- transformations ----------------------------------------------------------------------
Copy(x, dst, how) == /\ Live(x) /\ dst # x /\ Unedited(x) /\ how \in Family
   /\ LET r == SubsetOf(heap, top[x], All(top[x]), nxt, 0, FullCap) IN
        heap' = r.h2 /\ top' = [top EXCEPT ![dst] = r.t2] /\ nxt' = nxt + r.n
   /\ Log(how, x, 0, dst, <<>>)
Subset(x, dst, keep) == /\ Live(x) /\ dst # x /\ keep # {} /\ Unedited(x) /\ "subset" \in Family
   /\ LET r == SubsetOf(heap, top[x], keep, nxt, 0, FullCap) IN
        heap' = r.h2 /\ top' = [top EXCEPT ![dst] = r.t2] /\ nxt' = nxt + r.n
   /\ Log("subset", x, 0, dst, SetToSeq(keep))
\* x.join(y, keep_resSeq): chains of x then chains of y, atoms of y renumbered after those of x; with keep_resSeq = FALSE the
\* residues of y are numbered on from the resSeq of x's last residue
LastResSeq(t) == LET c == t.chains[Len(t.chains)] IN c.res[Len(c.res)].resSeq
Join(x, y, dst, keepRS) == /\ Live(x) /\ Live(y) /\ dst # x /\ dst # y /\ Unedited(x) /\ Unedited(y) /\ "join" \in Family
   /\ Len(top[x].atoms) + Len(top[y].atoms) <= 8
   /\ LET rx == SubsetOf(heap, top[x], All(top[x]), nxt, 0, FullCap)
          ry == SubsetOf(rx.h2, top[y], All(top[y]), nxt + rx.n, rx.n, FullCap)
          base == LastResSeq(top[x])
          nresBefore(ci) == LET F[k \in 0..(ci-1)] == IF k = 0 THEN 0 ELSE F[k-1] + Len(ry.t2.chains[k].res) IN F[ci-1]
          ychains == [ci \in 1..Len(ry.t2.chains) |->
                        [ry.t2.chains[ci] EXCEPT !.res = [ri \in 1..Len(@) |->
                             [@[ri] EXCEPT !.resSeq = IF keepRS THEN @ ELSE base + nresBefore(ci) + ri]]]] IN
        /\ heap' = ry.h2
        /\ top' = [top EXCEPT ![dst] = [chains |-> rx.t2.chains \o ychains, atoms |-> rx.t2.atoms \o ry.t2.atoms,
                                        bonds |-> rx.t2.bonds \o ry.t2.bonds]]
        /\ nxt' = nxt + rx.n + ry.n
   /\ Log("join", x, y, dst, <<IF keepRS THEN 1 ELSE 0>>)
\* carriers: what the property demands of each (bond type/order only "where the carrier can hold them";
\* PDB re-creates standard-residue bonds from templates, so its bond list is not specified here)
Cap(c) == IF c = "dataframe" THEN [cid |-> "df_drops_chain_id" \notin Dev, serial |-> "keep", battr |-> TRUE, bonds |-> TRUE]
          ELSE IF c = "hdf5" THEN [cid |-> "h5_drops_chain_id" \notin Dev,
                                   serial |-> IF "h5_drops_serial" \in Dev THEN "drop" ELSE "keep", battr |-> FALSE, bonds |-> TRUE]
          ELSE [cid |-> TRUE, serial |-> IF "pdb_renumbers_serial" \in Dev THEN "renumber" ELSE "keep", battr |-> FALSE, bonds |-> FALSE]
Carrier(x, dst, c) == /\ Live(x) /\ dst # x /\ Unedited(x) /\ c \in Family
   /\ LET r == SubsetOf(heap, top[x], All(top[x]), nxt, 0, Cap(c)) IN
        heap' = r.h2 /\ top' = [top EXCEPT ![dst] = r.t2] /\ nxt' = nxt + r.n
   /\ Log(c, x, 0, dst, <<>>)
\* ---- edits, modelled as the code performs them --------------------------------------------
\* delete_atom_by_index renumbers the later Atom OBJECTS and drops the bonds of the deleted atom
DeleteAtom(x, k) == /\ Live(x) /\ k \in 0..(Len(top[x].atoms)-1) /\ Len(top[x].atoms) > 1 /\ "delete_atom" \in Family /\ ("subset" \in Family \/ k = 0)
   /\ LET t == top[x]  u == t.atoms[k+1]
          later == { t.atoms[i] : i \in (k+2)..Len(t.atoms) }
          strip(r) == [r EXCEPT !.atoms = SelSeq(r.atoms, LAMBDA w : w # u)] IN
        /\ heap' = [w \in DOMAIN heap |-> IF w \in later THEN [heap[w] EXCEPT !.idx = heap[w].idx - 1] ELSE heap[w]]
        /\ top' = [top EXCEPT ![x] = [t EXCEPT !.atoms = SelSeq(t.atoms, LAMBDA w : w # u),
                     !.bonds = SelSeq(t.bonds, LAMBDA b : b.u # u /\ b.v # u),
                     !.chains = [c \in 1..Len(t.chains) |-> [t.chains[c] EXCEPT !.res = [r \in 1..Len(t.chains[c].res) |-> strip(t.chains[c].res[r])]]]]]
   /\ UNCHANGED nxt /\ Log("delete_atom", x, 0, x, <<k>>)
AddBond(x, i, j) == /\ Live(x) /\ i < j /\ j <= Len(top[x].atoms) /\ "add_bond" \in Family /\ ("subset" \in Family \/ (i = 1 /\ j = 3))
   /\ (~\E b \in 1..Len(top[x].bonds) : {top[x].bonds[b].u, top[x].bonds[b].v} = {top[x].atoms[i], top[x].atoms[j]})
   /\ top' = [top EXCEPT ![x].bonds = Append(@, [u |-> top[x].atoms[i], v |-> top[x].atoms[j], ty |-> "triple", ord |-> 3])]
   /\ UNCHANGED <<heap, nxt>> /\ Log("add_bond", x, 0, x, <<i - 1, j - 1>>)
Next == \/ \E x \in Obj, dst \in Obj, how \in {"copy", "deepcopy", "pickle"} : Copy(x, dst, how)
        \/ \E x \in Obj, dst \in Obj : Live(x) /\ \E keep \in (IF KeepFamily = {} THEN SUBSET All(top[x]) ELSE {k \cap All(top[x]) : k \in KeepFamily}) : Subset(x, dst, keep)
        \/ \E x \in Obj, y \in Obj, dst \in Obj, k \in BOOLEAN : Join(x, y, dst, k)
        \/ \E x \in Obj, dst \in Obj, c \in {"dataframe", "hdf5", "pdb"} : Carrier(x, dst, c)
        \/ \E x \in Obj : Live(x) /\ \E k \in 0..7 : DeleteAtom(x, k)
        \/ \E x \in Obj : Live(x) /\ \E i \in 1..2, j \in 2..8 : AddBond(x, i, j)
Spec == Init /\ [][Next]_vars
\* ---- properties ------------------------------------------------------------------------------
LastH == hist[Len(hist)]
Vx(x) == Value(heap, top[x])
\* copies preserve everything
CopyPreserves == (hist # <<>> /\ LastH.op \in {"copy", "deepcopy", "pickle"} /\ Dev = {} /\ Unedited(LastH.dst)) =>
     Vx(LastH.x).chains = Vx(LastH.dst).chains /\ Vx(LastH.x).bonds = Vx(LastH.dst).bonds
\* indices are contiguous from 0 in every live topology
Contiguous == \A x \in Obj : Live(x) => Vx(x).index = [a \in 1..Len(top[x].atoms) |-> a - 1]
\* every bond of a topology refers to atom objects of that same topology
BondsOwnAtoms == \A x \in Obj : Live(x) => \A b \in 1..Len(top[x].bonds) :
                    \E i, j \in 1..Len(top[x].atoms) : top[x].atoms[i] = top[x].bonds[b].u /\ top[x].atoms[j] = top[x].bonds[b].v
\* no two live topologies share an atom object
Disjoint == \A x, y \in Obj : (x # y /\ Live(x) /\ Live(y)) => \A i \in 1..Len(top[x].atoms), j \in 1..Len(top[y].atoms) : top[x].atoms[i] # top[y].atoms[j]
\* editing one topology never changes the value of another
Independent == [][\A y \in Obj : (hist' # hist /\ hist'[Len(hist')].op \in {"delete_atom", "add_bond"} /\ hist'[Len(hist')].x # y /\ Live(y))
                       => Value(heap', top'[y]) = Value(heap, top[y])]_vars
\* subset keeps a bond iff both its ends survive
SubsetBonds == (hist # <<>> /\ LastH.op = "subset") =>
     LET src == Vx(LastH.x)  keep == {LastH.arg[i] : i \in 1..Len(LastH.arg)} IN
       Cardinality(Vx(LastH.dst).bonds) = Cardinality({ b \in src.bonds : b.a \in keep /\ b.b \in keep })
View == <<heap, top>>
BondSeq(v) == SetToSeq(v.bonds)
Export(x) == IF Live(x) THEN [live |-> TRUE, chains |-> Vx(x).chains, index |-> Vx(x).index, bonds |-> BondSeq(Vx(x))]
             ELSE [live |-> FALSE, chains |-> <<>>, index |-> <<>>, bonds |-> <<>>]
ExportP(x) == IF "atoms" \in DOMAIN top'[x]
              THEN LET v == Value(heap', top'[x]) IN [live |-> TRUE, chains |-> v.chains, index |-> v.index, bonds |-> SetToSeq(v.bonds)]
              ELSE [live |-> FALSE, chains |-> <<>>, index |-> <<>>, bonds |-> <<>>]
Emit == Len(hist) < D /\ PrintT(<<"TR", ToJson([hist |-> hist', post |-> [x \in Obj |-> ExportP(x)]])>>)
=======================================================================
