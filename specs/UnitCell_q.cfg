SPECIFICATION Spec
CONSTANTS NF = 2
 D = 2
INVARIANT FieldLen
INVARIANT AllValid
INVARIANT NoHalfSetAfterVectors
PROPERTY CompleteIff
PROPERTY IndexKeepsEach
VIEW View
ACTION_CONSTRAINT Emit
CHECK_DEADLOCK FALSE
