---------------------------- MODULE Dssp ----------------------------
(* Property C15: the DSSP secondary-structure rules on a backbone H-bond relation.
   Input record in = [n, chain, skip, hb, bend]: number of residues, chain id per residue, residues lacking N/CA/C/O,
   the H-bond relation hb (pairs <<donor N-H residue, acceptor C=O residue>>, already "best two per donor" as
   kabsch_sander reports it) and the bend flags from the C-alpha geometry.  Output Codes(in): one code per residue.
   Rules transcribed from Kabsch & Sander (1983) as implemented in DSSP 2.2 structure.cpp, which mdtraj's dssp.cpp
   cites: n-turns, minimal helices with priority H, then G on free residues, then I allowed to overwrite H; parallel /
   antiparallel bridges with chain-continuity conditions; ladders of consecutive bridges, bulge merging; E / B; T; S; NA.
   Indices are 0-based as in the reference implementation (sequences are stored 1-based). *)
EXTENDS Integers, Sequences, FiniteSets, TLC
Min2(a,b) == IF a < b THEN a ELSE b
Max2(a,b) == IF a > b THEN a ELSE b
Front(s) == s[1]
Back(s) == s[Len(s)]
\* ---- input: a record in = [n, chain, skip, hb, bend]; chain/skip/bend are sequences (1-based storage of 0-based residues)
Ch(in, i) == in.chain[i+1]
Sk(in, i) == in.skip[i+1]
Bd(in, i) == in.bend[i+1]
TB(in, d, a) == <<d, a>> \in in.hb            \* H-bond from donor N-H(d) to acceptor C=O(a)
\* ---- bridges ----
TestBridge(in, I, J) ==
  LET a == I-1  b == I  c == I+1  d == J-1  e == J  f == J+1 IN
  IF a >= 0 /\ c < in.n /\ d >= 0 /\ f < in.n /\ Ch(in,a) = Ch(in,c) /\ Ch(in,d) = Ch(in,f)
  THEN IF (TB(in,c,e) /\ TB(in,e,a)) \/ (TB(in,f,b) /\ TB(in,b,d)) THEN "P"
       ELSE IF (TB(in,c,d) /\ TB(in,f,a)) \/ (TB(in,e,b) /\ TB(in,b,e)) THEN "A" ELSE "N"
  ELSE "N"
BridgePairs(in) == { p \in (1..(in.n-5)) \X (4..(in.n-2)) :
                       p[2] >= p[1] + 3 /\ TestBridge(in, p[2], p[1]) # "N" /\ ~Sk(in, p[1]) /\ ~Sk(in, p[2]) }
Less(p, q) == p[1] < q[1] \/ (p[1] = q[1] /\ p[2] < q[2])
RECURSIVE SortPairs(_)
SortPairs(S) == IF S = {} THEN <<>> ELSE LET m == CHOOSE x \in S : \A y \in S : x = y \/ Less(x, y) IN <<m>> \o SortPairs(S \ {m})
\* extend the first ladder that accepts bridge (i,j) of type t, else open a new one
RECURSIVE Extend(_,_,_,_,_,_)
Extend(in, L, k, i, j, t) ==
  IF k > Len(L) THEN Append(L, [type |-> t, ci |-> Ch(in,i), cj |-> Ch(in,j), is |-> <<i>>, js |-> <<j>>])
  ELSE LET lad == L[k] IN
       IF lad.type = t /\ i = Back(lad.is) + 1 /\ t = "P" /\ Back(lad.js) + 1 = j
       THEN [L EXCEPT ![k] = [lad EXCEPT !.is = Append(lad.is, i), !.js = Append(lad.js, j)]]
       ELSE IF lad.type = t /\ i = Back(lad.is) + 1 /\ t = "A" /\ Front(lad.js) - 1 = j
       THEN [L EXCEPT ![k] = [lad EXCEPT !.is = Append(lad.is, i), !.js = <<j>> \o lad.js]]
       ELSE Extend(in, L, k+1, i, j, t)
RECURSIVE Build(_,_,_)
Build(in, ps, L) == IF ps = <<>> THEN L
                    ELSE Build(in, Tail(ps), Extend(in, L, 1, ps[1][1], ps[1][2], TestBridge(in, ps[1][2], ps[1][1])))
\* stable insertion sort of ladders by (chain of i, first i)
LadLess(x, y) == x.ci < y.ci \/ (x.ci = y.ci /\ Front(x.is) < Front(y.is))
RECURSIVE Insert(_,_)
Insert(sorted, x) == IF sorted = <<>> THEN <<x>>
                     ELSE IF LadLess(x, sorted[1]) THEN <<x>> \o sorted ELSE <<sorted[1]>> \o Insert(Tail(sorted), x)
RECURSIVE SortLad(_,_)
SortLad(L, acc) == IF L = <<>> THEN acc ELSE SortLad(Tail(L), Insert(acc, L[1]))
RemoveAt(s, k) == SubSeq(s, 1, k-1) \o SubSeq(s, k+1, Len(s))
RECURSIVE Merge(_,_,_,_)
Merge(in, L, i, j) ==
  IF i > Len(L) THEN L
  ELSE IF j > Len(L) THEN Merge(in, L, i+1, i+2)
  ELSE LET x == L[i]  y == L[j]
           ibi == Front(x.is) iei == Back(x.is) jbi == Front(x.js) jei == Back(x.js)
           ibj == Front(y.is) iej == Back(y.is) jbj == Front(y.js) jej == Back(y.js)
           blocked == x.type # y.type \/ Ch(in, Min2(ibi,ibj)) # Ch(in, Max2(iei,iej))
                      \/ Ch(in, Min2(jbi,jbj)) # Ch(in, Max2(jei,jej)) \/ ibj - iei >= 6 \/ (iei >= ibj /\ ibi <= iej)
           bulge == IF x.type = "P" THEN jbj > jbi /\ ((jbj - jei < 6 /\ ibj - iei < 3) \/ jbj - jei < 3)
                                   ELSE jbj < jbi /\ ((jbi - jej < 6 /\ ibj - iei < 3) \/ jbi - jej < 3)
       IN IF ~blocked /\ bulge
          THEN Merge(in, RemoveAt([L EXCEPT ![i] = [x EXCEPT !.is = x.is \o y.is,
                                     !.js = IF x.type = "P" THEN x.js \o y.js ELSE y.js \o x.js]], j), i, j)
          ELSE Merge(in, L, i, j+1)
Ladders(in) == Merge(in, SortLad(Build(in, SortPairs(BridgePairs(in)), <<>>), <<>>), 1, 2)
Covers(lad, r) == (Front(lad.is) <= r /\ r <= Back(lad.is)) \/ (Front(lad.js) <= r /\ r <= Back(lad.js))
Sheet(in, r) == LET L == Ladders(in) IN
   IF \E k \in 1..Len(L) : Covers(L[k], r) /\ Len(L[k].is) > 1 THEN "E"
   ELSE IF \E k \in 1..Len(L) : Covers(L[k], r) THEN "B" ELSE " "
\* ---- helices, turns, bends ----
Start(in, s, i) == i >= 0 /\ i + s < in.n /\ TB(in, i+s, i) /\ Ch(in,i) = Ch(in,i+s)
MinHelix(in, s, i) == i >= 1 /\ Start(in, s, i) /\ Start(in, s, i-1)
InH(in, r) == \E i \in Max2(1, r-3)..r : i < in.n - 4 /\ MinHelix(in, 4, i)
AfterH(in, sheet, r) == IF InH(in, r) THEN "H" ELSE sheet[r+1]
InG(in, aH, r) == \E i \in Max2(1, r-2)..r : i < in.n - 3 /\ MinHelix(in, 3, i) /\ \A j \in i..(i+2) : aH[j+1] = " "
InI(in, aG, r) == \E i \in Max2(1, r-4)..r : i < in.n - 5 /\ MinHelix(in, 5, i) /\ \A j \in i..(i+4) : aG[j+1] \in {" ", "H"}
IsTurn(in, r) == \E s \in 3..5 : \E k \in 1..(s-1) : r >= k /\ Start(in, s, r-k)
Codes(in) ==
  LET sheet == [r1 \in 1..in.n |-> Sheet(in, r1-1)]
      aH == [r1 \in 1..in.n |-> AfterH(in, sheet, r1-1)]
      aG == [r1 \in 1..in.n |-> IF InG(in, aH, r1-1) THEN "G" ELSE aH[r1]]
      aI == [r1 \in 1..in.n |-> IF InI(in, aG, r1-1) THEN "I" ELSE aG[r1]]
  IN [r1 \in 1..in.n |->
        LET r == r1 - 1 IN
        IF Sk(in, r) THEN "NA"
        ELSE IF aI[r1] = " " /\ r >= 1 /\ r <= in.n - 2
             THEN (IF IsTurn(in, r) THEN "T" ELSE IF Bd(in, r) THEN "S" ELSE " ")
             ELSE aI[r1]]
Simplified(c) == CASE c \in {"H","G","I"} -> "H" [] c \in {"B","E"} -> "E" [] c = "NA" -> "NA" [] OTHER -> "C"
=======================================================================
