---------------------------- MODULE DsspMC ----------------------------
(* Model-checking instance of Dssp: every input on N residues with at most MaxHB backbone H-bonds (|donor - acceptor| >= 2),
   every single chain break and every skip set of at most one residue (H-bonds never touch a skipped residue, as kabsch_sander
   guarantees). *)
EXTENDS Dssp
CONSTANTS N, MaxHB
Pairs == { <<d, a>> \in (0..(N-1)) \X (0..(N-1)) : d - a >= 2 \/ a - d >= 2 }
VARIABLES in, ph
Init == in = [n |-> N, chain |-> [i \in 1..N |-> 0], skip |-> [i \in 1..N |-> FALSE], hb |-> {}, bend |-> [i \in 1..N |-> FALSE]] /\ ph = 0
Shape == /\ ph = 0 /\ ph' = 1
         /\ \E brk \in 0..(N-1), sk \in 0..N, bd \in BOOLEAN :
              in' = [in EXCEPT !.chain = [i \in 1..N |-> IF brk > 0 /\ i > brk THEN 1 ELSE 0],
                               !.skip = [i \in 1..N |-> i = sk], !.bend = [i \in 1..N |-> bd /\ i % 2 = 0]]
AddHB == /\ ph \in 1..MaxHB /\ ph' = ph + 1
         /\ \E p \in Pairs : p \notin in.hb /\ ~in.skip[p[1]+1] /\ ~in.skip[p[2]+1] /\ (\A q \in in.hb : Less(q, p)) /\ in' = [in EXCEPT !.hb = @ \cup {p}]
Next == Shape \/ AddHB
Spec == Init /\ [][Next]_<<in, ph>>
Alphabet == {"H", "G", "I", "E", "B", "T", "S", " ", "NA"}
C == Codes(in)
OnePerResidue == ph >= 1 => Len(C) = N /\ \A i \in 1..N : C[i] \in Alphabet
NAExactlySkip == ph >= 1 => \A i \in 1..N : (C[i] = "NA") <=> in.skip[i]
\* helices never span a chain break: a run of helix codes lies within one chain
HelixWithinChain == ph >= 1 => \A i \in 1..(N-1) : (C[i] \in {"H","G","I"} /\ C[i+1] \in {"H","G","I"} /\ in.chain[i] # in.chain[i+1]) =>
                                  (\E s \in 3..5 : \E k \in 0..(N-1) : TB(in, k + s, k) /\ k + 1 <= i /\ i + 1 <= k + s + 1 /\ in.chain[k+1] = in.chain[k+s+1]) 
SimplifiedIsImage == ph >= 1 => \A i \in 1..N : Simplified(C[i]) \in {"H", "E", "C", "NA"} /\ (Simplified(C[i]) = "NA" <=> C[i] = "NA")
\* without any H-bond there is no helix, sheet or turn
NoBondsNoStructure == (ph >= 1 /\ in.hb = {}) => \A i \in 1..N : C[i] \in {" ", "S", "NA"}
=======================================================================
