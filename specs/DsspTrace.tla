---------------------------- MODULE DsspTrace ----------------------------
(* Trace validation for C15: each record is one frame of a real md.compute_dssp call together with the H-bond relation
   md.kabsch_sander reports for that frame and the bend flags; the recorded codes must be Codes(input), and the
   simplified codes their fixed image. *)
EXTENDS Dssp, Json, IOUtils, TLCExt
Tr == JsonDeserialize(IOEnv.TRACE_FILE).recs
Rec(k) == LET t == Tr[k] IN
   [n |-> t.n, chain |-> t.chain, skip |-> [i \in 1..t.n |-> t.skip[i] = 1],
    hb |-> { <<t.hb[i][1], t.hb[i][2]>> : i \in 1..Len(t.hb) }, bend |-> [i \in 1..t.n |-> t.bend[i] = 1]]
VARIABLE l
Init == l = 1
Check(k) == LET got == Codes(Rec(k))
                simp == [i \in 1..Tr[k].n |-> Simplified(got[i])] IN
   IF got = Tr[k].codes /\ simp = Tr[k].simplified THEN PrintT(<<"ACCEPT", Tr[k].id>>)
   ELSE PrintT(<<"REJECT", Tr[k].id, [i \in 1..Tr[k].n |-> IF got[i] = Tr[k].codes[i] THEN "." ELSE got[i] \o "/" \o Tr[k].codes[i]],
                 simp = Tr[k].simplified>>)
Next == l <= Len(Tr) /\ Check(l) /\ l' = l + 1
Spec == Init /\ [][Next]_l
=======================================================================
