---------------------------- MODULE DescEval ----------------------------
(* Evaluation of Descriptors.tla on configurations proposed by the driver (random lattice placements of the model topology):
   prints the exact expected values of every descriptor for the replay, after checking the bookkeeping invariants. *)
EXTENDS Descriptors, IOUtils, TLCExt
Recs == JsonDeserialize(IOEnv.TRACE_FILE).recs
Top == JsonDeserialize(IOEnv.TRACE_FILE).top
VARIABLE k
Atoms == [i \in 1..Len(Top.atoms) |-> [res |-> Top.atoms[i].res, name |-> Top.atoms[i].name, h |-> Top.atoms[i].h = 1, side |-> Top.atoms[i].side = 1, m |-> Top.atoms[i].m, w |-> Top.atoms[i].w]]
Residues == [r \in 1..Len(Top.residues) |-> [chain |-> Top.residues[r].chain, gly |-> Top.residues[r].gly = 1]]
Pos(r) == [i \in 1..Len(r.pos) |-> <<r.pos[i][1], r.pos[i][2], r.pos[i][3]>>]
Cell(r) == << <<r.cell[1][1], r.cell[1][2], r.cell[1][3]>>, <<r.cell[2][1], r.cell[2][2], r.cell[2][3]>>, <<r.cell[3][1], r.cell[3][2], r.cell[3][3]>> >>
Schemes == <<"ca", "closest", "closest-heavy", "sidechain", "sidechain-heavy">>
SeqOf(S) == LET RECURSIVE F(_) F(T) == IF T = {} THEN <<>> ELSE LET x == CHOOSE y \in T : \A z \in T : y[1] < z[1] \/ (y[1] = z[1] /\ y[2] <= z[2]) IN <<x>> \o F(T \ {x}) IN F(S)
Eval(r) == LET P == Pos(r)  C == Cell(r)  per == r.periodic
               allp == SeqOf(AllPairs(Atoms, Residues))
               given == [i \in 1..Len(r.pairs) |-> <<r.pairs[i][1], r.pairs[i][2]>>]
               contacts(pl) == [s \in 1..5 |-> [i \in 1..Len(pl) |-> <<pl[i][1], pl[i][2], ContactD2(Atoms, Residues, P, C, per, Schemes[s], pl[i][1], pl[i][2])>>]]
               mixed == [i \in 1..Len(r.mixed) |-> <<r.mixed[i][1], r.mixed[i][2]>>]     \* may contain residues (waters) without CA / side chain
               allsm == [s \in 1..5 |-> [i \in 1..Len(given) |-> ContactAllD2(Atoms, Residues, P, C, per, Schemes[s], given[i][1], given[i][2])]]
               gy == GyrN2(P)
               bonds == [b \in 1..Len(Top.bonds) |-> <<Top.bonds[b][1], Top.bonds[b][2]>>]
               selq == [m \in 1..Len(r.sel) |-> r.sel[m]]
               sel == { selq[m] : m \in 1..Len(selq) }
               \* bookkeeping invariants: the tensor is symmetric with trace N^2 Rg^2; histogram counts sum to the in-range pairs
               ok == /\ gy[1][2] = gy[2][1] /\ gy[1][3] = gy[3][1] /\ gy[2][3] = gy[3][2]
                     /\ gy[1][1] + gy[2][2] + gy[3][3] = Rg2N2(P)
           IN PrintT(<<"D", r.id, ToJson([all |-> contacts(allp), given |-> contacts(given), mixed |-> contacts(mixed), allsm |-> allsm, com |-> ComNum(Atoms, P), mass |-> MassSum(Atoms), cog |-> CogNum(P),
                                         rg |-> Rg2N2(P), rgw |-> RgW([i \in 1..Len(Atoms) |-> Atoms[i].w], P), gyr |-> gy,
                                         rdf |-> RdfCounts(P, C, per, [i \in 1..Len(r.rdfpairs) |-> <<r.rdfpairs[i][1], r.rdfpairs[i][2]>>], 0, 10),
                                         drid |-> [m \in 1..Len(selq) |-> DridD2(P, bonds, sel, selq[m])],
                                         dipole |-> DipoleNum([i \in 1..Len(r.charges) |-> r.charges[i]], P),
                                         dipole_p_ok |-> (per /\ DipolePeriodicOK(Atoms, P, C)),
                                         dipole_p |-> IF per /\ DipolePeriodicOK(Atoms, P, C) THEN DipolePeriodic([i \in 1..Len(r.charges) |-> r.charges[i]], Atoms, P, C) ELSE <<0, 0, 0>>,
                                         vol |-> Volume(C), ok |-> ok])>>)
Init == k = 1
Next == k <= Len(Recs) /\ Eval(Recs[k]) /\ k' = k + 1
Spec == Init /\ [][Next]_k
=======================================================================
