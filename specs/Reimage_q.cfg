SPECIFICATION Spec
CONSTANTS Order = "placement"
 NShift = 3
INVARIANT LatticeMoves
INVARIANT BondsWhole
INVARIANT ObservablesKept
CHECK_DEADLOCK FALSE
