SPECIFICATION Spec
CONSTANTS PreKinds = {"valid", "longer", "junk"}
 D = 2
 MultiFile = TRUE
PROPERTY NoClobber
PROPERTY RefusedIffExists
PROPERTY FullReplace
PROPERTY ReadsPure
ACTION_CONSTRAINT Emit
CHECK_DEADLOCK FALSE
