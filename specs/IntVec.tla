---------------------------- MODULE IntVec ----------------------------
(* Shared exact integer geometry for the lattice family (C05, C07, C09, C10, C11, C14).
   Positions and cell vectors are integer triples in units of a grid step; cells are lower-triangular
   integer matrices a=(ax,0,0), b=(bx,by,0), c=(cx,cy,cz) with ax,by,cz > 0 (mdtraj's standard orientation).
   Rounding is set-valued (Rounds): on an exact half both neighbours are admissible, because roundf,
   _mm_round_ps and Python round break ties differently. TLC integers are 32-bit: callers keep
   coordinates below ~200 so that every product below fits. *)
EXTENDS Integers, Sequences, FiniteSets
Add(u,v) == <<u[1]+v[1], u[2]+v[2], u[3]+v[3]>>
Sub(u,v) == <<u[1]-v[1], u[2]-v[2], u[3]-v[3]>>
Mul(k,u) == <<k*u[1], k*u[2], k*u[3]>>
Dot(u,v) == u[1]*v[1]+u[2]*v[2]+u[3]*v[3]
Cross(u,v) == <<u[2]*v[3]-u[3]*v[2], u[3]*v[1]-u[1]*v[3], u[1]*v[2]-u[2]*v[1]>>
N2(u) == Dot(u,u)
Abs(x) == IF x < 0 THEN -x ELSE x
Sgn(x) == IF x > 0 THEN 1 ELSE IF x < 0 THEN -1 ELSE 0
FloorDiv(a,b) == IF a >= 0 THEN a \div b ELSE -((-a + b - 1) \div b)     \* b > 0
CeilDiv(a,b) == -FloorDiv(-a, b)
Rnd(a,b) == IF b > 0 THEN FloorDiv(2*a + b, 2*b) ELSE FloorDiv(-2*a - b, -2*b)   \* one nearest integer (ties up)
Rounds(a,b) == LET bb == Abs(b)  aa == IF b > 0 THEN a ELSE -a  f == FloorDiv(2*aa + bb, 2*bb) IN
               IF (2*aa + bb) % (2*bb) = 0 THEN {f, f-1} ELSE {f}          \* both neighbours on a tie
MinOf(S) == CHOOSE m \in S : \A s \in S : m <= s
MaxOf(S) == CHOOSE m \in S : \A s \in S : m >= s
Isqrt(n) == CHOOSE s \in 0..(n+1) : s*s <= n /\ (s+1)*(s+1) > n
Lattice(cell, i, j, k) == Add(Mul(i,cell[1]), Add(Mul(j,cell[2]), Mul(k,cell[3])))
Orthogonal(cell) == cell[2][1] = 0 /\ cell[3][1] = 0 /\ cell[3][2] = 0
Volume(cell) == cell[1][1]*cell[2][2]*cell[3][3]
\* exact perpendicular widths: W_k^2 = Vol^2 / |face_k|^2 ; "d2 below (W/2)^2 for every k"  <=>  4 d2 |face|^2 < Vol^2
Faces(cell) == { Cross(cell[1], cell[2]), Cross(cell[2], cell[3]), Cross(cell[3], cell[1]) }
BelowHalfWidth(d2, cell) == \A f \in Faces(cell) : 4 * d2 * N2(f) < Volume(cell) * Volume(cell)
\* --- the definition: true minimum of |r - lattice vector|^2 over the whole lattice (bounded Fincke-Pohst enumeration:
\*     an upper bound U from successive rounding, then all lattice points with |z-part|, |y-part|, |x-part| inside it) ---
TrueMin2(r, cell) ==
  LET a == cell[1] b == cell[2] c == cell[3]
      k3 == Rnd(r[3], c[3])  r1 == Sub(r, Mul(k3, c))
      k2 == Rnd(r1[2], b[2]) r2 == Sub(r1, Mul(k2, b))
      k1 == Rnd(r2[1], a[1]) r3 == Sub(r2, Mul(k1, a))
      U == N2(r3)  s == Isqrt(U)
      Z == { k \in FloorDiv(r[3]-s, c[3])..CeilDiv(r[3]+s, c[3]) : (r[3]-k*c[3])*(r[3]-k*c[3]) <= U }
  IN MinOf( { U } \cup UNION { LET p == Sub(r, Mul(kz, c))  Uy == U - p[3]*p[3]  sy == Isqrt(Uy) IN
        UNION { LET q == Sub(p, Mul(ky, b))  Ux == Uy - q[2]*q[2]  sx == Isqrt(Ux) IN
                { N2(Sub(q, Mul(kx, a))) : kx \in FloorDiv(q[1]-sx, a[1])..CeilDiv(q[1]+sx, a[1]) }
              : ky \in { k \in FloorDiv(p[2]-sy, b[2])..CeilDiv(p[2]+sy, b[2]) : (p[2]-k*b[2])*(p[2]-k*b[2]) <= Uy } }
      : kz \in Z } )
\* --- the kernels as written in geometry.cpp (dist_mic_triclinic) and distance.py (_reduce_box_vectors, _distance_mic) ---
ReduceSet(cell) == LET a == cell[1] b == cell[2] c == cell[3] IN
   UNION { LET c1 == Sub(c, Mul(k1, b)) IN
           UNION { LET c2 == Sub(c1, Mul(k2, a)) IN { <<a, Sub(b, Mul(k3, a)), c2>> : k3 \in Rounds(b[1], a[1]) }
                   : k2 \in Rounds(c1[1], a[1]) }
           : k1 \in Rounds(c[2], b[2]) }
WrapSet(r, cell) == LET a == cell[1] b == cell[2] c == cell[3] IN
   UNION { LET r1 == Sub(r, Mul(kc,c)) IN
           UNION { LET r2 == Sub(r1, Mul(kb,b)) IN { Sub(r2, Mul(ka,a)) : ka \in Rounds(r2[1], a[1]) }
                   : kb \in Rounds(r1[2], b[2]) }
           : kc \in Rounds(r[3], c[3]) }
Images27(w, cell) == { Add(w, Lattice(cell, i, j, k)) : i \in -1..1, j \in -1..1, k \in -1..1 }
\* admissible displacement vectors of the triclinic kernel: for every admissible reduction and wrap, the images of least length
AlgoTriVec(r, cell) == UNION { UNION { LET im == Images27(w, rc)  m == MinOf({ N2(x) : x \in im }) IN { x \in im : N2(x) = m }
                                      : w \in WrapSet(r, rc) } : rc \in ReduceSet(cell) }
AlgoOrthoVec(r, cell) == { <<r[1]-k1*cell[1][1], r[2]-k2*cell[2][2], r[3]-k3*cell[3][3]>> :
                             k1 \in Rounds(r[1], cell[1][1]), k2 \in Rounds(r[2], cell[2][2]), k3 \in Rounds(r[3], cell[3][3]) }
AlgoVec(r, cell) == IF Orthogonal(cell) THEN AlgoOrthoVec(r, cell) ELSE AlgoTriVec(r, cell)
Algo2(r, cell) == { N2(x) : x \in AlgoVec(r, cell) }
\* is v - r an integer combination of the cell vectors?  (solve the lower-triangular system exactly)
IsLattice(d, cell) == LET c == cell[3] b == cell[2] a == cell[1] IN
      /\ d[3] % c[3] = 0
      /\ LET k == d[3] \div c[3]  d1 == Sub(d, Mul(k, c)) IN
           /\ d1[2] % b[2] = 0
           /\ LET j == d1[2] \div b[2]  d2 == Sub(d1, Mul(j, b)) IN d2[1] % a[1] = 0
=======================================================================
