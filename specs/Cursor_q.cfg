SPECIFICATION Spec
CONSTANTS N = 3
 Handles = {1, 2}
 D = 4
 HasLen = TRUE
 CanSeek = TRUE
 HasTell = TRUE
 Dev = {}
VIEW View
ACTION_CONSTRAINT Emit
INVARIANT PosRange
INVARIANT ReadIsNext
INVARIANT LenConstant
INVARIANT TellIsPos
PROPERTY HandlesIndependent
CHECK_DEADLOCK FALSE
