---------------------------- MODULE RmsdEval ----------------------------
(* Code -> spec binding for C06: the driver proposes pairs of centred integer conformations (random, rotated copies, mirror
   images, near-identical, planar, ...); this module computes for each the exact characteristic quartic of the QCP key matrix
   with the operators of Rmsd.tla, re-checks the algebraic invariants on it, and prints the coefficients together with an
   integer bracket of the largest root (U - 1 <= lmax < U).  The replay certifies md.rmsd / superpose / rmsf against the largest
   root of exactly this polynomial. *)
EXTENDS Rmsd, IOUtils, TLCExt
Recs == JsonDeserialize(IOEnv.TRACE_FILE).recs
VARIABLE k
Conf(s) == [i \in 1..Len(s) |-> <<s[i][1], s[i][2], s[i][3]>>]
DPoly(q, l) == 4*l*l*l + 2*q.c2*l + q.c1
\* to the right of the largest root both P and P' are positive (K is symmetric: four real roots, possibly double)
Pos(q, v) == Poly(q, v) > 0 /\ DPoly(q, v) > 0
Upper(q, gmax) == CHOOSE u \in 0..(gmax + 2) : (\A v \in u..(gmax + 2) : Pos(q, v)) /\ (u = 0 \/ ~Pos(q, u - 1))
EInit == k = 1 /\ X = <<>> /\ Y = <<>> /\ ph = 9
Eval(r) == LET x == Conf(r.x)  y == Conf(r.y)  q == Quartic(x, y)  ga == G(x)  gb == G(y)
               gmax == IF ga > gb THEN ga ELSE gb
               ok == /\ Sum3(x) = <<0,0,0>> /\ Sum3(y) = <<0,0,0>>
                     /\ Quartic(y, x) = q
                     /\ (x = y => Poly(q, ga) = 0)
               \* exactly planar alignment sets (all points in one plane through the centroid, e.g. any three points): det(sum x x^T) = 0
               cov(z) == [a \in 1..3 |-> [b \in 1..3 |-> M(z, z, a, b)]]
               planar == Det3(cov(x)) = 0 \/ Det3(cov(y)) = 0
           IN PrintT(<<"Q", r.id, q.c2, q.c1, q.c0, ga, gb, Upper(q, gmax), ok, planar>>)
ENext == k <= Len(Recs) /\ Eval(Recs[k]) /\ k' = k + 1 /\ UNCHANGED <<X, Y, ph>>
ESpec == EInit /\ [][ENext]_<<k, X, Y, ph>>
=======================================================================
