---------------------------- MODULE Rmsd ----------------------------
(* Property C06: the optimal-superposition RMSD on centred integer conformations.
   For conformations X, Y (N points each, zero centroid) the minimum over all proper rotations R of sum |R x_i - y_i|^2 is
   Ga + Gb - 2 lmax, where lmax is the largest eigenvalue of the 4x4 QCP key matrix K(X,Y) built from the inner-product matrix
   M = sum x_i y_i^T, i.e. the largest root of the characteristic quartic P(l) = l^4 + c2 l^2 + c1 l + c0 with
   c2 = -2 sum M_ij^2, c1 = -8 det M, c0 = det K (K is symmetric: four real roots).  Everything here is exact integer algebra;
   TLC checks the algebraic consequences of the property (self, symmetry, invariance under the 24 proper rotations of the
   cube and under relabelling, mirror images, upper bound by every cube rotation) and emits (X, Y, quartic, Ga, Gb) for the
   replay, which certifies md.rmsd / superpose against the largest root.  32-bit safe for N <= 5, |coordinates| <= 2. *)
EXTENDS Integers, Sequences, FiniteSets, TLC, Json
CONSTANTS N, R
Pts == { <<x,y,z>> : x \in -R..R, y \in -R..R, z \in -R..R }
Sum3(X) == LET S[i \in 0..Len(X)] == IF i = 0 THEN <<0,0,0>> ELSE <<S[i-1][1]+X[i][1], S[i-1][2]+X[i][2], S[i-1][3]+X[i][3]>> IN S[Len(X)]
G(X) == LET S[i \in 0..Len(X)] == IF i = 0 THEN 0 ELSE S[i-1] + X[i][1]*X[i][1] + X[i][2]*X[i][2] + X[i][3]*X[i][3] IN S[Len(X)]
M(X, Y, a, b) == LET S[i \in 0..Len(X)] == IF i = 0 THEN 0 ELSE S[i-1] + X[i][a]*Y[i][b] IN S[Len(X)]
Det3(m) == m[1][1]*(m[2][2]*m[3][3]-m[2][3]*m[3][2]) - m[1][2]*(m[2][1]*m[3][3]-m[2][3]*m[3][1]) + m[1][3]*(m[2][1]*m[3][2]-m[2][2]*m[3][1])
Minor(m, r, c) == LET rows == SelectSeq(<<1,2,3,4>>, LAMBDA i : i # r)  cols == SelectSeq(<<1,2,3,4>>, LAMBDA j : j # c) IN
                  [i \in 1..3 |-> [j \in 1..3 |-> m[rows[i]][cols[j]]]]
Det4(m) == m[1][1]*Det3(Minor(m,1,1)) - m[1][2]*Det3(Minor(m,1,2)) + m[1][3]*Det3(Minor(m,1,3)) - m[1][4]*Det3(Minor(m,1,4))
Key(X, Y) == LET Sxx == M(X,Y,1,1) Sxy == M(X,Y,1,2) Sxz == M(X,Y,1,3) Syx == M(X,Y,2,1) Syy == M(X,Y,2,2) Syz == M(X,Y,2,3)
                 Szx == M(X,Y,3,1) Szy == M(X,Y,3,2) Szz == M(X,Y,3,3) IN
   << <<Sxx+Syy+Szz, Syz-Szy, Szx-Sxz, Sxy-Syx>>, <<Syz-Szy, Sxx-Syy-Szz, Sxy+Syx, Szx+Sxz>>,
      <<Szx-Sxz, Sxy+Syx, Syy-Sxx-Szz, Syz+Szy>>, <<Sxy-Syx, Szx+Sxz, Syz+Szy, Szz-Sxx-Syy>> >>
Mm(X, Y) == [a \in 1..3 |-> [b \in 1..3 |-> M(X,Y,a,b)]]
Quartic(X, Y) == LET mm == Mm(X,Y) IN
   [c2 |-> -2 * (mm[1][1]*mm[1][1]+mm[1][2]*mm[1][2]+mm[1][3]*mm[1][3]+mm[2][1]*mm[2][1]+mm[2][2]*mm[2][2]+mm[2][3]*mm[2][3]+mm[3][1]*mm[3][1]+mm[3][2]*mm[3][2]+mm[3][3]*mm[3][3]),
    c1 |-> -8 * Det3(mm), c0 |-> Det4(Key(X, Y))]
\* proper rotations of the cube: signed permutation matrices with determinant +1
Perms == { p \in [1..3 -> 1..3] : \A i, j \in 1..3 : i # j => p[i] # p[j] }
Rot24 == { r \in [p : Perms, s : [1..3 -> {-1, 1}]] :
             LET m == [i \in 1..3 |-> [j \in 1..3 |-> IF r.p[i] = j THEN r.s[i] ELSE 0]] IN Det3(m) = 1 }
Apply(r, v) == [i \in 1..3 |-> r.s[i] * v[r.p[i]]]
Rotate(r, X) == [i \in 1..Len(X) |-> Apply(r, X[i])]
VARIABLES X, Y, ph
Init == X = <<>> /\ Y = <<>> /\ ph = 0
Centred(Z) == Sum3(Z) = <<0,0,0>>
\* staged choice of the points (the last one is forced by the zero centroid) so that TLC's workers share the enumeration
Neg3(v) == <<-v[1], -v[2], -v[3]>>
Close(Z) == LET s == Sum3(Z) IN IF Neg3(s) \in Pts THEN Append(Z, Neg3(s)) ELSE <<>>
Pick == /\ ph = 0 /\ ph' = 1
        /\ \E Z \in [1..(N-1) -> Pts] : Close(Z) # <<>> /\ Z[1] # Z[2] /\ X' = Close(Z)
        /\ Y' = X'
Other == /\ ph = 1 /\ ph' = 2 /\ X' = X /\ \E Z \in [1..(N-1) -> Pts] : Close(Z) # <<>> /\ Y' = Close(Z)
Next == Pick \/ Other
Spec == Init /\ [][Next]_<<X, Y, ph>>
Poly(q, l) == l*l*l*l + q.c2*l*l + q.c1*l + q.c0
SelfRoot == ph = 1 => Poly(Quartic(X, X), G(X)) = 0                       \* rmsd(X,X) = 0  <=> lmax = G(X)
Symmetric == ph = 2 => Quartic(X, Y) = Quartic(Y, X)
\* the quarter turns about x and about y generate the 24 proper rotations of the cube: invariance under both is invariance under all
Gens == { r \in Rot24 : (r.p = <<1, 3, 2>> /\ r.s = <<1, -1, 1>>) \/ (r.p = <<3, 2, 1>> /\ r.s = <<1, 1, -1>>) }
RotInvariant == ph = 2 => Cardinality(Gens) = 2 /\ \A r \in Gens : Quartic(Rotate(r, X), Rotate(r, Y)) = Quartic(X, Y)
RotatedIsZero == ph = 1 => \A r \in Rot24 : Poly(Quartic(X, Rotate(r, X)), G(X)) = 0
\* relabelling both conformations with the same permutation changes nothing
PermInvariant == ph = 2 => Quartic([i \in 1..N |-> X[N + 1 - i]], [i \in 1..N |-> Y[N + 1 - i]]) = Quartic(X, Y)
\* the identity rotation (and every cube rotation) gives an upper bound Ga + Gb - 2 tr-like term >= the minimum:
\* equivalently l_R = sum_i (R x_i) . y_i never exceeds lmax, so P cannot be negative to the right of ... : P(l_R) <= 0 or l_R is below the largest root.
\* Checked in the form: for l0 = max_R l_R,  P(l) > 0 for every integer l > max(l0, lroot_upper) is implied; we check the weaker exact fact
\* that P(Ga) >= 0 when Gb = Ga (lmax <= sqrt(Ga Gb) by Cauchy-Schwarz)
CauchySchwarz == (ph = 2 /\ G(X) = G(Y)) => Poly(Quartic(X, Y), G(X)) >= 0
\* mirror image: Y = -X has no proper rotation onto X unless X is planar; its quartic is that of (X, X) with c1 negated
Mirror == ph = 1 => LET q == Quartic(X, X)  m == Quartic(X, [i \in 1..N |-> <<-X[i][1], -X[i][2], -X[i][3]>>]) IN m.c2 = q.c2 /\ m.c1 = -q.c1 /\ m.c0 = q.c0
Emit == ph' = 2 => PrintT(<<"TR", ToJson([X |-> X', Y |-> Y', q |-> Quartic(X', Y'), ga |-> G(X'), gb |-> G(Y')])>>)
=======================================================================
