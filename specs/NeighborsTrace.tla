---------------------------- MODULE NeighborsTrace ----------------------------
(* Trace validation for C10: each record is one real call of md.compute_neighbors / md.compute_neighborlist on a lattice
   configuration; the recorded result must be exactly the set the definition gives.  Records are independent; a
   record that does not match is REJECTed with the missing and extra atoms and, per missing pair, whether one of
   its atoms lies outside the primary cell (the input class of a known finding). *)
EXTENDS Neighbors, Json, IOUtils, TLCExt
VARIABLES tid
Recs == JsonDeserialize(IOEnv.TRACE_FILE).recs
NT == Len(Recs)
Pos(rec) == [i \in 1..Len(rec.pos) |-> <<rec.pos[i][1], rec.pos[i][2], rec.pos[i][3]>>]
Cell(rec) == << <<rec.cell[1][1], rec.cell[1][2], rec.cell[1][3]>>, <<rec.cell[2][1], rec.cell[2][2], rec.cell[2][3]>>, <<rec.cell[3][1], rec.cell[3][2], rec.cell[3][3]>> >>
SeqToSet(s) == { s[i] : i \in 1..Len(s) }
CheckNeighbors(rec) ==
   LET exp == NeighSeq(Pos(rec), Cell(rec), rec.periodic, rec.c4, rec.query, rec.haystack) IN
   IF exp = rec.obs THEN PrintT(<<"ACCEPT", rec.id>>)
   ELSE PrintT(<<"REJECT", rec.id, "neighbors", SeqToSet(exp) \ SeqToSet(rec.obs), SeqToSet(rec.obs) \ SeqToSet(exp),
                 SeqToSet(exp) = SeqToSet(rec.obs)>>)
CheckList(rec) ==
   LET exp == NeighList(Pos(rec), Cell(rec), rec.periodic, rec.c4)
       obs == [i \in 1..Len(rec.obs) |-> SeqToSet(rec.obs[i])]
       nodup == \A i \in 1..Len(rec.obs) : Cardinality(SeqToSet(rec.obs[i])) = Len(rec.obs[i])
       missing == { <<i, j>> \in (1..Len(rec.pos)) \X (1..Len(rec.pos)) : j \in exp[i] /\ j \notin obs[i] }
       extra == { <<i, j>> \in (1..Len(rec.pos)) \X (1..Len(rec.pos)) : j \in obs[i] /\ j \notin exp[i] }
       outside == { p \in missing : ~InPrimary(Pos(rec)[p[1]], Cell(rec)) \/ ~InPrimary(Pos(rec)[p[2]], Cell(rec)) }
       onface == { p \in missing : OnFace(Pos(rec)[p[1]], Cell(rec)) \/ OnFace(Pos(rec)[p[2]], Cell(rec)) }
   IN IF missing = {} /\ extra = {} /\ nodup THEN PrintT(<<"ACCEPT", rec.id>>)
      ELSE PrintT(<<"REJECT", rec.id, "neighborlist", Cardinality(missing), Cardinality(extra), nodup, rec.periodic /\ outside = missing,
                   rec.periodic /\ onface = missing>>)
Init == tid = 1
Next == /\ tid <= NT
        /\ IF Recs[tid].kind = "neighbors" THEN CheckNeighbors(Recs[tid]) ELSE CheckList(Recs[tid])
        /\ tid' = tid + 1
Spec == Init /\ [][Next]_tid
=======================================================================
