---------------------------- MODULE HBond ----------------------------
(* Property C14: reported hydrogen bonds are exactly those meeting the stated criteria.
   Part 1 -- which donor-hydrogen...acceptor triplets exist: N-H and O-H pairs bonded in the topology, N/O acceptors,
             water and side-chain filters applied to every participating atom (donor, hydrogen and acceptor each on its own: the hydrogen of
             an N-terminal amine is a side-chain atom while its nitrogen is a backbone atom), donor = acceptor removed.
   Part 2 -- the geometric decisions on an integer lattice (unit 0.0125 nm, so 0.25 nm = 20 units):
             Baker-Hubbard:  present  <=>  d2(H,A) < 400  /\  cos(angle D-H...A) < -1/2   (strict, law-of-cosines form)
                             reported <=>  #frames present > freq * #frames
             Wernet-Nilsson: present  <=>  r_DA < 0.33 nm - 0.000044 nm * delta(H-D...A)^2, decided through the bracket table
                             HBondTables!WNCos2 (undecided cases are excluded, as the property's exclusion band allows)
   Part 3 -- Kabsch-Sander from logged distances (trace validation, HBondTrace.tla). *)
EXTENDS IntVec, HBondTables, TLC, Json
CONSTANT Mode     \* "triplets" | "geom" | "freq"
\* ---------------- Part 1: model topology -------------------------------------------------------
\* atoms: [el, water, side]; bonds as pairs of atom ids
MAtoms == << [el |-> "N", water |-> FALSE, side |-> FALSE], [el |-> "H", water |-> FALSE, side |-> FALSE],      \* 1-2 backbone N-H
             [el |-> "C", water |-> FALSE, side |-> FALSE], [el |-> "O", water |-> FALSE, side |-> FALSE],      \* 3=4 backbone C=O
             [el |-> "O", water |-> FALSE, side |-> TRUE],  [el |-> "H", water |-> FALSE, side |-> TRUE],       \* 5-6 side-chain O-H
             [el |-> "N", water |-> FALSE, side |-> TRUE],  [el |-> "H", water |-> FALSE, side |-> TRUE],       \* 7-8 side-chain N-H
             [el |-> "O", water |-> TRUE,  side |-> FALSE], [el |-> "H", water |-> TRUE,  side |-> FALSE],      \* 9-10 water O-H
             [el |-> "S", water |-> FALSE, side |-> TRUE],  [el |-> "H", water |-> FALSE, side |-> TRUE],       \* 11-12 S-H: not a donor
             [el |-> "N", water |-> FALSE, side |-> FALSE],                                                         \* 13 bare N acceptor
             [el |-> "H", water |-> FALSE, side |-> TRUE],                                                          \* 14 N-terminal amine hydrogen (H2) on backbone N 1:
                                                                                                                    \*    the hydrogen counts as side chain, its nitrogen does not
             [el |-> "H", water |-> FALSE, side |-> FALSE] >>                                                       \* 15 hydrogen named like a backbone atom on side-chain N 7
MBonds == { <<1,2>>, <<3,4>>, <<6,5>>, <<7,8>>, <<9,10>>, <<11,12>>, <<1,3>>, <<1,14>>, <<15,7>> }     \* note <<6,5>>, <<15,7>>: hydrogen listed first
Can(a, xw, sc) == ~(xw /\ MAtoms[a].water) /\ ~(sc /\ ~MAtoms[a].side)
Donors(xw, sc) == { dh \in (1..Len(MAtoms)) \X (1..Len(MAtoms)) :
                      /\ (<<dh[1], dh[2]>> \in MBonds \/ <<dh[2], dh[1]>> \in MBonds)
                      /\ MAtoms[dh[1]].el \in {"N", "O"} /\ MAtoms[dh[2]].el = "H"
                      /\ Can(dh[1], xw, sc) /\ Can(dh[2], xw, sc) }
Acceptors(xw, sc) == { a \in 1..Len(MAtoms) : MAtoms[a].el \in {"N", "O"} /\ Can(a, xw, sc) }
Triplets(xw, sc) == { <<dh[1], dh[2], a>> : dh \in Donors(xw, sc), a \in Acceptors(xw, sc) } \ { t \in (1..Len(MAtoms)) \X (1..Len(MAtoms)) \X (1..Len(MAtoms)) : t[1] = t[3] }
\* ---------------- Part 2: geometry -------------------------------------------------------------
\* Baker-Hubbard on squared distances a2 = |DH|^2, b2 = |HA|^2, c2 = |AD|^2 :  cos = (a2 + b2 - c2) / (2ab) < -1/2  <=>  c2 - a2 - b2 > ab
BHTie(a2, b2, c2) == b2 = 400 \/ (c2 - a2 - b2 > 0 /\ (c2 - a2 - b2) * (c2 - a2 - b2) = a2 * b2)
BHPresent(a2, b2, c2) == b2 < 400 /\ c2 - a2 - b2 > 0 /\ (c2 - a2 - b2) * (c2 - a2 - b2) > a2 * b2
\* Wernet-Nilsson with vectors dh = H - D, da = A - D :  "in" | "out" | "undecided"
WN(dh, da) == LET d2 == N2(da)  e == IF d2 <= 700 THEN WNCos2[d2 + 1] ELSE <<0,0,0>>  dot == Dot(dh, da)  den == N2(dh) * d2 IN
              IF e[1] = 0 \/ dot <= 0 THEN "out"
              ELSE IF dot * dot * 10000 > e[3] * den THEN "in" ELSE IF dot * dot * 10000 < e[2] * den THEN "out" ELSE "undecided"
\* reported by Baker-Hubbard over F frames: more than freq = fn/fd of the frames (strict)
Reported(npresent, F, fn, fd) == npresent * fd > fn * F
VARIABLES st, ph
Init == st = <<>> /\ ph = 0
D0 == <<0,0,0>>  H0 == <<0,0,8>>
APos == { <<x, y, z>> : x \in {0, 4, 8, 12, 16, 20, 24}, y \in {0, 8}, z \in {-8, -4, 0, 4, 8, 12, 16, 20, 24, 28, 32} } \ {D0, H0}
PickTrip == Mode = "triplets" /\ ph = 0 /\ ph' = 1 /\ \E xw \in BOOLEAN, sc \in BOOLEAN : st' = <<xw, sc>>
PickGeom == Mode = "geom" /\ ph = 0 /\ ph' = 1 /\ \E a \in APos : st' = a
PickFreq == Mode = "freq" /\ ph = 0 /\ ph' = 1 /\ \E F \in 1..4 : \E k \in 0..F : \E fr \in { <<0,1>>, <<1,10>>, <<1,4>>, <<1,3>>, <<1,2>>, <<2,3>>, <<3,4>>, <<1,1>> } : st' = <<F, k, fr[1], fr[2]>>
Next == PickTrip \/ PickGeom \/ PickFreq
Spec == Init /\ [][Next]_<<st, ph>>
\* ---- sanity of the decision procedures themselves ----
\* a perfectly straight, short bond is present; an acceptor behind the donor never is
StraightIsPresent == BHPresent(64, 144, 400) /\ WN(<<0,0,8>>, <<0,0,20>>) = "in" /\ ~BHPresent(64, 400, 144) /\ WN(<<0,0,8>>, <<0,0,-20>>) = "out"
FreqStrict == (Mode = "freq" /\ ph = 1) => (Reported(st[2], st[1], st[3], st[4]) <=> st[2] * st[4] > st[3] * st[1])
SetToSeqT(S) == LET RECURSIVE F(_) F(T) == IF T = {} THEN <<>> ELSE LET x == CHOOSE y \in T : TRUE IN <<x>> \o F(T \ {x}) IN F(S)
Emit == \/ (Mode = "triplets" /\ PrintT(<<"TR", ToJson([mode |-> "triplets", xw |-> st'[1], sc |-> st'[2], trip |-> SetToSeqT(Triplets(st'[1], st'[2]))])>>))
        \/ (Mode = "geom" /\ LET a == st'  a2 == N2(Sub(H0, D0))  b2 == N2(Sub(a, H0))  c2 == N2(Sub(a, D0)) IN
              PrintT(<<"TR", ToJson([mode |-> "geom", a |-> a, bh |-> BHPresent(a2, b2, c2), bhtie |-> BHTie(a2, b2, c2), wn |-> WN(Sub(H0, D0), Sub(a, D0))])>>))
        \/ (Mode = "freq" /\ PrintT(<<"TR", ToJson([mode |-> "freq", F |-> st'[1], k |-> st'[2], fn |-> st'[3], fd |-> st'[4], rep |-> Reported(st'[2], st'[1], st'[3], st'[4])])>>))
=======================================================================
