---------------------------- MODULE TopologyEval ----------------------------
(* Deterministic evaluation of given operation histories with the actions of Topology.tla (used for known-finding triage:
   the histories on which the real code disagreed with the ideal specification are re-evaluated with the capability
   deviations Dev switched on; the observation is a known finding only if it equals this result exactly). *)
EXTENDS Topology, IOUtils, TLCExt
Recs == JsonDeserialize(IOEnv.TRACE_FILE).recs
VARIABLES tid, l
evars == <<heap, top, nxt, hist, tid, l>>
EInit == Init /\ tid = 1 /\ l = 1
ArgSet(s) == { s.arg[i] : i \in 1..Len(s.arg) }
Apply(s) == \/ s.op \in {"copy", "deepcopy", "pickle"} /\ Copy(s.x, s.dst, s.op)
            \/ s.op = "subset" /\ Subset(s.x, s.dst, ArgSet(s))
            \/ s.op = "join" /\ Join(s.x, s.y, s.dst, s.arg[1] = 1)
            \/ s.op \in {"dataframe", "hdf5", "pdb"} /\ Carrier(s.x, s.dst, s.op)
            \/ s.op = "delete_atom" /\ DeleteAtom(s.x, s.arg[1])
            \/ s.op = "add_bond" /\ AddBond(s.x, s.arg[1] + 1, s.arg[2] + 1)
Step == /\ tid <= Len(Recs) /\ l <= Len(Recs[tid].hist)
        /\ Apply(Recs[tid].hist[l]) /\ l' = l + 1 /\ tid' = tid
Finish == /\ tid <= Len(Recs) /\ l > Len(Recs[tid].hist)
          /\ PrintT(<<"POST", Recs[tid].id, ToJson([x \in Obj |-> Export(x)])>>)
          /\ heap = heap /\ heap' = [u \in 1..5 |-> A0[u]] /\ top' = [x \in Obj |-> IF x = 1 THEN T0 ELSE Null] /\ nxt' = 6 /\ hist' = <<>>
          /\ tid' = tid + 1 /\ l' = 1
ENext == Step \/ Finish
ESpec == EInit /\ [][ENext]_evars
=======================================================================
