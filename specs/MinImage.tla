---------------------------- MODULE MinImage ----------------------------
(* Property C05: periodic distances and displacements are true minimum-image values.
   A case = (cell, r): a lower-triangular integer cell and the plain difference r of two atoms (many cells
   away included).  The kernels of the code (orthorhombic: r - round(r/L) L; triclinic: reduce the box, wrap
   along c, b, a, search 27 images) are transcribed in IntVec; the definition is the true minimum over the
   whole lattice (Fincke-Pohst).  TLC decides algorithm = definition for every case inside the bounds. *)
EXTENDS IntVec, TLC, Json
CONSTANTS MaxL, MaxS, R, UseCatalogue
\* named shapes on the integer grid: cubic, orthorhombic, monoclinic, hexagonal 120 / 60 (7/4 ~ sqrt 3), truncated
\* octahedron- and rhombic-dodecahedron-like skews, a strongly skewed unreduced cell, axis ratio 6
Catalogue == { << <<4,0,0>>, <<0,4,0>>, <<0,0,4>> >>, << <<3,0,0>>, <<0,5,0>>, <<0,0,7>> >>, << <<4,0,0>>, <<0,5,0>>, <<-2,0,6>> >>,
               << <<8,0,0>>, <<-4,7,0>>, <<0,0,6>> >>, << <<8,0,0>>, <<4,7,0>>, <<0,0,6>> >>,
               << <<6,0,0>>, <<-2,6,0>>, <<-2,-3,5>> >>, << <<6,0,0>>, <<0,6,0>>, <<3,3,4>> >>,
               << <<4,0,0>>, <<7,4,0>>, <<9,-6,4>> >>, << <<2,0,0>>, <<1,12,0>>, <<-1,5,3>> >>,
               \* strongly skewed (115/110/115 degrees, edges 5:4:3): a sum of two cell vectors is shorter than one of them
               << <<20,0,0>>, <<-7,14,0>>, <<-4,-8,8>> >>, << <<10,0,0>>, <<-4,7,0>>, <<-2,-4,4>> >>,
               \* almost rectangular cells (angles within 0.15 degrees of 90): skewed all the same
               << <<400,0,0>>, <<0,400,0>>, <<1,0,400>> >>, << <<400,0,0>>, <<1,400,0>>, <<0,-1,400>> >> }
Cells == IF UseCatalogue THEN Catalogue
         ELSE { <<<<ax,0,0>>, <<bx,by,0>>, <<cx,cy,cz>>>> : ax \in 2..MaxL, by \in 2..MaxL, cz \in 2..MaxL, bx \in -MaxS..MaxS, cx \in -MaxS..MaxS, cy \in -MaxS..MaxS }
VARIABLES cell, r, ph
vars == <<cell, r, ph>>
Init == cell = << <<1,0,0>>, <<0,1,0>>, <<0,0,1>> >> /\ r = <<0,0,0>> /\ ph = 0
PickCell == ph = 0 /\ ph' = 1 /\ cell' \in Cells /\ r' = r
\* displacements: a cube around the origin, and (for cells much larger than that cube) cubes around the 27 half-lattice points, where
\* the wrap decisions are taken
Big(c) == c[1][1] > 4 * R
Halves(c) == { << (sa*c[1][1] + sb*c[2][1] + sc*c[3][1]) \div 2, (sb*c[2][2] + sc*c[3][2]) \div 2, (sc*c[3][3]) \div 2 >> : sa \in {-1,0,1}, sb \in {-1,0,1}, sc \in {-1,0,1} }
Probe(c) == {<<x,y,z>> : x \in -R..R, y \in -R..R, z \in -R..R}
            \cup (IF Big(c) THEN { <<h[1]+x, h[2]+y, h[3]+z>> : h \in Halves(c), x \in -1..1, y \in -1..1, z \in -1..1 } ELSE {})
PickR == ph = 1 /\ ph' = 2 /\ cell' = cell /\ r' \in Probe(cell)
\* "below half the smallest cell width": exact (IntVec) for the small cells; for the big almost rectangular ones the exact test overflows
\* TLC's 32-bit integers, and a sufficient condition is used instead (each width exceeds the smallest diagonal entry minus 2)
MinDiag(c) == LET m1 == IF c[1][1] < c[2][2] THEN c[1][1] ELSE c[2][2] IN IF m1 < c[3][3] THEN m1 ELSE c[3][3]
InRange(d2, c) == IF Big(c) THEN 4 * d2 <= (MinDiag(c) - 2) * (MinDiag(c) - 2) ELSE BelowHalfWidth(d2, c)
Next == PickCell \/ PickR
Spec == Init /\ [][Next]_vars
Case == ph = 2
\* every reported displacement is the plain difference shifted by an integer combination of the INPUT cell vectors
LatticeCongruent == Case => \A v \in AlgoVec(r, cell) : IsLattice(Sub(v, r), cell)
NeverBelow == Case => \A d \in Algo2(r, cell) : d >= TrueMin2(r, cell)
ExactOrtho == (Case /\ Orthogonal(cell)) => Algo2(r, cell) = {TrueMin2(r, cell)}
ExactInRange == (Case /\ InRange(TrueMin2(r, cell), cell)) => Algo2(r, cell) = {TrueMin2(r, cell)}
VecSeq(S) == LET RECURSIVE F(_) F(T) == IF T = {} THEN <<>> ELSE LET x == CHOOSE y \in T : TRUE IN <<x>> \o F(T \ {x}) IN F(S)
Emit == ph' = 2 => PrintT(<<"TR", ToJson([cell |-> cell', r |-> r', vecs |-> VecSeq(AlgoVec(r', cell')), tmin |-> TrueMin2(r', cell'),
                                            inrange |-> InRange(TrueMin2(r', cell'), cell')])>>)
=======================================================================
