SPECIFICATION Spec
CONSTANTS MaxN = 5
 MaxStride = 3
 AtomSets <- AtomSetsDef
 Dev = {}
INVARIANT ConcatIsStridedSkipped
INVARIANT ChunkSizes
INVARIANT OneChunkWhenZero
INVARIANT LoadIsSlice
INVARIANT FrameIsIndex
INVARIANT ListIsJoin
PROPERTY Terminates
ACTION_CONSTRAINT Emit
CHECK_DEADLOCK FALSE
