---------------------------- MODULE HBondTrace ----------------------------
(* Trace validation of md.kabsch_sander (C14, part 3).  One record per frame: for every ordered residue pair (donor, acceptor)
   inside the 0.9 nm C-alpha prefilter the four distances r_HO, r_NC, r_HC, r_NO of the documented construction (amide hydrogen
   0.1 nm from N along the previous residue's C=O direction) as integers in units of 1e-5 nm, computed by the driver in float64.
   E = 2.7888 nm kcal/mol * (1/r_HC + 1/r_NO - 1/r_HO - 1/r_NC); with S = 10^9 div r_HO + 10^9 div r_NC - 10^9 div r_HC - 10^9 div r_NO
   the bond exists iff E < -0.5 kcal/mol iff S > 1792.9; |S - 1793| <= 4 is left undecided (|E + 0.5| < 0.0012; rounding the four distances to 1e-5 nm moves S by at most 2.4).
   Proline donors and incomplete residues never donate, residue i+1 never donates to residue i's C=O ... (rj != ri + 1),
   only the two lowest energies per donor are kept. *)
EXTENDS Integers, Sequences, FiniteSets, Json, IOUtils, TLCExt, TLC
Tr == JsonDeserialize(IOEnv.TRACE_FILE).recs
VARIABLE l
Init == l = 1
S(c) == (1000000000 \div c.rho) + (1000000000 \div c.rnc) - (1000000000 \div c.rhc) - (1000000000 \div c.rno)
Decided(c) == S(c) > 1797 \/ S(c) < 1789
Bonded(c) == S(c) > 1797
Cands(r) == { r.cands[i] : i \in 1..Len(r.cands) }
\* candidates that can be bonds: not a proline donor, not donor = acceptor + 1 (the peptide-bonded neighbour)
Eligible(r) == { c \in Cands(r) : c.pro = 0 /\ c.d # c.a + 1 }
\* the two strongest (largest S) eligible bonded candidates of each donor; ties and undecided energies make a record inconclusive
Rank(r, c) == Cardinality({ x \in Eligible(r) : x.d = c.d /\ Bonded(x) /\ S(x) > S(c) })
Expected(r) == { <<c.d, c.a>> : c \in { x \in Eligible(r) : Bonded(x) /\ Rank(r, x) < 2 } }
Inconclusive(r) == \/ \E c \in Eligible(r) : ~Decided(c)
                   \/ \E c1, c2 \in Eligible(r) : c1 # c2 /\ c1.d = c2.d /\ Bonded(c1) /\ Bonded(c2) /\ S(c1) - S(c2) \in -8..8
Obs(r) == { <<r.obs[i][1], r.obs[i][2]>> : i \in 1..Len(r.obs) }
Check(k) == LET r == Tr[k] IN
   IF Inconclusive(r) THEN PrintT(<<"SKIP", r.id>>)
   ELSE IF Obs(r) = Expected(r) THEN PrintT(<<"ACCEPT", r.id>>)
   ELSE PrintT(<<"REJECT", r.id, Expected(r) \ Obs(r), Obs(r) \ Expected(r)>>)
Next == l <= Len(Tr) /\ Check(l) /\ l' = l + 1
Spec == Init /\ [][Next]_l
=======================================================================
