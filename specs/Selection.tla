---------------------------- MODULE Selection ----------------------------
(* Property C12: the mdtraj atom-selection language (docs/atom_selection.rst).
   A model topology, AST leaves in every spelling (keyword aliases, operator spellings, literal quoting),
   boolean shapes with and without parentheses under the precedence comparison > not > and > or, regular
   expression matches with tabulated match sets, and malformed productions.  The "actions" are grammar
   productions, staged so that TLC workers share the enumeration: the state graph IS the set of expressions.
   Emit prints, per expression, its tokens and its denotation (the increasing list of selected indices). *)
EXTENDS Integers, Sequences, FiniteSets, TLC, Json
CONSTANT Full      \* TRUE: the second leaf of a two-leaf expression ranges over every leaf in every spelling
\* ---- model topology (0-based atom index = position-1); mass in 1/1000 dalton ----
Atom(name, el, mass, rn, rs, ri, ch, seg, code, prot, wat, bb, sc, nb) ==
  [name |-> name, el |-> el, mass |-> mass, resname |-> rn, resSeq |-> rs, resid |-> ri, chain |-> ch, seg |-> seg,
   code |-> code, protein |-> prot, water |-> wat, backbone |-> bb, sidechain |-> sc, nbonds |-> nb]
Atoms == << Atom("N","N",14007,"ALA",5,0,0,"A","A",TRUE,FALSE,TRUE,FALSE,1),  Atom("CA","C",12011,"ALA",5,0,0,"A","A",TRUE,FALSE,TRUE,FALSE,3),
            Atom("CB","C",12011,"ALA",5,0,0,"A","A",TRUE,FALSE,FALSE,TRUE,1), Atom("C","C",12011,"ALA",5,0,0,"A","A",TRUE,FALSE,TRUE,FALSE,2),
            Atom("N","N",14007,"GLY",6,1,0,"A","G",TRUE,FALSE,TRUE,FALSE,2),  Atom("CA","C",12011,"GLY",6,1,0,"A","G",TRUE,FALSE,TRUE,FALSE,1),
            Atom("O","O",15999,"HOH",5,2,1,"B","X",FALSE,TRUE,FALSE,FALSE,2), Atom("H1'","H",1008,"HOH",5,2,1,"B","X",FALSE,TRUE,FALSE,FALSE,1),
            Atom("H2","H",1008,"HOH",5,2,1,"B","X",FALSE,TRUE,FALSE,FALSE,1), Atom("NA","Na",22990,"NA",7,3,1,"B","X",FALSE,FALSE,FALSE,FALSE,0) >>
NAt == Len(Atoms)
\* ---- vocabulary: canonical name -> spellings (docs/atom_selection.rst) ----
BoolKw == [all |-> <<"all","everything">>, none |-> <<"none","nothing">>, protein |-> <<"protein","is_protein">>,
           water |-> <<"water","waters","is_water">>, backbone |-> <<"backbone","is_backbone">>, sidechain |-> <<"sidechain","is_sidechain">>]
StrField == [name |-> <<"name">>, el |-> <<"type","element","symbol">>, resname |-> <<"resname","resn">>,
             seg |-> <<"segment_id","segname">>, code |-> <<"rescode","code","resc">>]
IntField == [resSeq |-> <<"residue","resSeq">>, resid |-> <<"resid","resi">>, chain |-> <<"chainid">>, mass |-> <<"mass">>,
             index |-> <<"index">>, nbonds |-> <<"n_bonds">>]
CmpOps == [eq |-> <<"==","eq">>, ne |-> <<"!=","ne">>, lt |-> <<"<","lt">>, le |-> <<"<=","le">>, gt |-> <<">","gt">>, ge |-> <<">=","ge">>]
AndSp == <<"and","&&">>  OrSp == <<"or","||">>  NotSp == <<"not","!">>
Quote == <<"bare","single","double">>
StrLitOf == [name |-> {"CA","N"}, el |-> {"C","Na"}, resname |-> {"ALA","HOH"}, seg |-> {"A"}, code |-> {"G"}]
IntLitOf == [resSeq |-> {5, 6}, resid |-> {0, 2}, chain |-> {1}, mass |-> {13500, 2000}, index |-> {3}, nbonds |-> {1}]
\* regular expressions (re.match: anchored at the start) with their match sets over the model's strings
RePat == [name |-> <<"C.*", "N.*", "H[12]">>, resname |-> <<"A.*", ".*H">>]
ReMatch == [name |-> << {"CA","CB","C"}, {"N","NA"}, {"H1'","H2"} >>, resname |-> << {"ALA"}, {"HOH"} >>]
\* ---- leaves: semantic part [t,f,op,x,y] + rendered tokens ----
Val(at, i, f) == IF f = "index" THEN i - 1 ELSE at[f]
CmpI(op, a, b) == CASE op = "eq" -> a = b [] op = "ne" -> a # b [] op = "lt" -> a < b [] op = "le" -> a <= b [] op = "gt" -> a > b [] op = "ge" -> a >= b
EvalLeaf(e, i) == LET at == Atoms[i] IN
  CASE e.t = "kw"   -> (IF e.f = "all" THEN TRUE ELSE IF e.f = "none" THEN FALSE ELSE at[e.f])
    [] e.t = "cmps" -> (IF e.op = "eq" THEN at[e.f] = e.xs ELSE at[e.f] # e.xs)
    [] e.t = "cmpi" -> CmpI(e.op, Val(at, i, e.f), e.x)
    [] e.t = "icmp" -> CmpI(e.op, e.x, Val(at, i, e.f))
    [] e.t = "imps" -> at[e.f] = e.xs
    [] e.t = "impi" -> Val(at, i, e.f) = e.x
    [] e.t = "ins"  -> at[e.f] \in {e.xs, e.ys}
    [] e.t = "rng"  -> e.x <= Val(at, i, e.f) /\ Val(at, i, e.f) <= e.y
    [] e.t = "re"   -> at[e.f] \in ReMatch[e.f][e.x]
Sem(t, f, op, x, y, xs, ys) == [t |-> t, f |-> f, op |-> op, x |-> x, y |-> y, xs |-> xs, ys |-> ys]
S(q, s) == [k |-> "str", q |-> q, s |-> s, n |-> 0]         \* literal tokens are structured: the driver applies quoting / number format
I(n) == [k |-> "int", q |-> "bare", s |-> "", n |-> n]
W(s) == [k |-> "word", q |-> "bare", s |-> s, n |-> 0]
Leaf(sem, toks) == [sem |-> sem, toks |-> toks]
AllLeaves ==
     { Leaf(Sem("kw", f, "", 0, 0, "", ""), <<W(BoolKw[f][a])>>) : f \in DOMAIN BoolKw, a \in 1..3 } \* filtered below
LeafSet ==
     UNION { { Leaf(Sem("kw", f, "", 0, 0, "", ""), <<W(BoolKw[f][a])>>) : a \in 1..Len(BoolKw[f]) } : f \in DOMAIN BoolKw }
  \cup UNION { { Leaf(Sem("cmps", f, op, 0, 0, x, ""), <<W(StrField[f][a]), W(CmpOps[op][o]), S(q, x)>>)
                 : a \in 1..Len(StrField[f]), op \in {"eq","ne"}, o \in 1..2, q \in {"bare","single","double"}, x \in StrLitOf[f] } : f \in DOMAIN StrField }
  \cup UNION { { Leaf(Sem("cmpi", f, op, x, 0, "", ""), <<W(IntField[f][a]), W(CmpOps[op][o]), I(x)>>)
                 : a \in 1..Len(IntField[f]), op \in (IF f = "mass" THEN {"lt","le","gt","ge"} ELSE DOMAIN CmpOps), o \in 1..2, x \in IntLitOf[f] } : f \in DOMAIN IntField }
  \cup UNION { { Leaf(Sem("icmp", f, op, x, 0, "", ""), <<I(x), W(CmpOps[op][o]), W(IntField[f][1])>>)
                 : op \in DOMAIN CmpOps, o \in 1..2, x \in IntLitOf[f] } : f \in {"resid","index"} }
  \cup UNION { { Leaf(Sem("imps", f, "", 0, 0, x, ""), <<W(StrField[f][a]), S(q, x)>>)
                 : a \in 1..Len(StrField[f]), q \in {"bare","single"}, x \in StrLitOf[f] } : f \in DOMAIN StrField }
  \cup UNION { { Leaf(Sem("impi", f, "", x, 0, "", ""), <<W(IntField[f][a]), I(x)>>) : a \in 1..Len(IntField[f]), x \in IntLitOf[f] } : f \in (DOMAIN IntField) \ {"mass"} }
  \* a name that contains a quote character (primed atom names) can only be written inside the other kind of quotes ("double"),
  \* or inside single quotes with the apostrophe escaped by a backslash ("escaped": 'H1\''); a quoted literal denotes the string the
  \* Python string literal of the same text denotes
  \cup { Leaf(Sem("cmps", "name", op, 0, 0, "H1'", ""), <<W("name"), W(CmpOps[op][o]), S(q, "H1'")>>) : op \in {"eq","ne"}, o \in 1..2, q \in {"double", "escaped"} }
  \cup { Leaf(Sem("imps", "name", "", 0, 0, "H1'", ""), <<W("name"), S(q, "H1'")>>) : q \in {"double", "escaped"} }
  \cup UNION { { Leaf(Sem("re", f, "", k, 0, "", ""), <<W(StrField[f][1]), W("=~"), S("single", RePat[f][k])>>) : k \in 1..Len(RePat[f]) } : f \in DOMAIN RePat }
  \cup { Leaf(Sem("ins", f, "", 0, 0, x, y), <<W(StrField[f][1]), S("bare", x), S("bare", y)>>) : f \in {"name","resname"}, x \in {"CA","ALA"}, y \in {"N","HOH"} }
  \cup UNION { { Leaf(Sem("rng", f, "", x, y, "", ""), <<W(IntField[f][a]), I(x), W("to"), I(y)>>)
                 : a \in 1..Len(IntField[f]), x \in {0, 5}, y \in {1, 6, 13500} } : f \in {"resid","resSeq","mass"} }
RepLeaves == { l \in LeafSet : \/ l.sem.t = "kw" /\ l.toks[1].s \in {"protein","water"}
                               \/ l.sem.t = "cmps" /\ l.sem.f = "name" /\ l.sem.xs = "CA" /\ l.toks[3].q = "bare"
                               \/ l.sem.t = "cmpi" /\ l.sem.f = "resid" /\ l.sem.x = 0 /\ l.sem.op \in {"eq","lt"}
                               \/ l.sem.t = "imps" /\ l.sem.f = "resname" /\ l.sem.xs = "ALA" /\ l.toks[1].s = "resname" /\ l.toks[2].q = "bare"
                               \/ l.sem.t = "impi" /\ l.sem.f = "resid" /\ l.sem.x = 2 /\ l.toks[1].s = "resid"
                               \/ l.sem.t = "rng" /\ l.sem.f = "resid" /\ l.sem.x = 0 /\ l.sem.y = 1 /\ l.toks[1].s = "resid"
                               \/ l.sem.t = "ins" /\ l.sem.f = "name" /\ l.sem.xs = "CA" /\ l.sem.ys = "N"
                               \/ l.sem.t = "re" /\ l.sem.f = "name" /\ l.sem.x = 1 }
\* one leaf per (kind, field, operator spelling class): the mid-size family used when Full = FALSE
MidLeaves == { l \in LeafSet : \/ l \in RepLeaves
                               \/ l.sem.t = "kw"
                               \/ l.sem.t = "cmps" /\ l.toks[3].q = "bare" /\ l.toks[1].s = StrField[l.sem.f][1] /\ l.sem.xs \in {"CA", "C", "ALA", "A", "G"}
                               \/ l.sem.t = "cmpi" /\ l.toks[1].s = IntField[l.sem.f][1] /\ l.sem.x \in {5, 0, 1, 2000, 3}
                               \/ l.sem.t = "icmp" /\ l.sem.x \in {0, 3} /\ l.sem.op \in {"eq", "lt"}
                               \/ l.sem.t = "imps" /\ l.toks[2].q = "single" /\ l.toks[1].s = StrField[l.sem.f][1] /\ l.sem.xs \in {"CA", "C", "ALA", "A", "G"}
                               \/ l.sem.t = "impi" /\ l.toks[1].s = IntField[l.sem.f][1] /\ l.sem.x \in {5, 0, 1, 3}
                               \/ l.sem.t = "rng" /\ l.toks[1].s = IntField[l.sem.f][1] /\ l.sem.x = 0
                               \/ l.sem.t \in {"ins", "re"} }
\* one leaf per kind in its canonical spelling: the family of the three-leaf (precedence) expressions when Full = FALSE
Rep3 == { l \in RepLeaves : \A t \in 1..Len(l.toks) : l.toks[t].k # "word" \/ l.toks[t].s \notin {"eq", "ne", "lt", "!=", "resi"} }
\* ---- shapes: token layout and meaning ----
Shapes2 == {"LaL", "LoL", "nLaL", "LanL", "nLoL", "npLaLp", "npLoLp"}
Shapes3 == {"LaLoL", "LoLaL", "pLoLpaL", "LapLoLp", "LoLoL", "LaLaL", "nLoLaL"}
Ev(s, l, i) == LET a == EvalLeaf(l[1].sem, i)  b == IF Len(l) >= 2 THEN EvalLeaf(l[2].sem, i) ELSE FALSE  c == IF Len(l) >= 3 THEN EvalLeaf(l[3].sem, i) ELSE FALSE IN
  CASE s = "L" -> a [] s = "nL" -> ~a [] s = "LaL" -> a /\ b [] s = "LoL" -> a \/ b [] s = "nLaL" -> (~a) /\ b [] s = "LanL" -> a /\ ~b
    [] s = "nLoL" -> (~a) \/ b [] s = "npLaLp" -> ~(a /\ b) [] s = "npLoLp" -> ~(a \/ b)
    [] s = "LaLoL" -> (a /\ b) \/ c [] s = "LoLaL" -> a \/ (b /\ c) [] s = "pLoLpaL" -> (a \/ b) /\ c [] s = "LapLoLp" -> a /\ (b \/ c)
    [] s = "LoLoL" -> a \/ b \/ c [] s = "LaLaL" -> a /\ b /\ c [] s = "nLoLaL" -> (~a) \/ (b /\ c)
P(s) == <<W(s)>>
Layout(s, l, an, orr, nt) ==   \* an/orr/nt: chosen spellings
  LET A == l[1].toks  B == IF Len(l) >= 2 THEN l[2].toks ELSE <<>>  C == IF Len(l) >= 3 THEN l[3].toks ELSE <<>> IN
  CASE s = "L" -> A [] s = "nL" -> P(nt) \o A [] s = "LaL" -> A \o P(an) \o B [] s = "LoL" -> A \o P(orr) \o B
    [] s = "nLaL" -> P(nt) \o A \o P(an) \o B [] s = "LanL" -> A \o P(an) \o P(nt) \o B [] s = "nLoL" -> P(nt) \o A \o P(orr) \o B
    [] s = "npLaLp" -> P(nt) \o P("(") \o A \o P(an) \o B \o P(")") [] s = "npLoLp" -> P(nt) \o P("(") \o A \o P(orr) \o B \o P(")")
    [] s = "LaLoL" -> A \o P(an) \o B \o P(orr) \o C [] s = "LoLaL" -> A \o P(orr) \o B \o P(an) \o C
    [] s = "pLoLpaL" -> P("(") \o A \o P(orr) \o B \o P(")") \o P(an) \o C [] s = "LapLoLp" -> A \o P(an) \o P("(") \o B \o P(orr) \o C \o P(")")
    [] s = "LoLoL" -> A \o P(orr) \o B \o P(orr) \o C [] s = "LaLaL" -> A \o P(an) \o B \o P(an) \o C
    [] s = "nLoLaL" -> P(nt) \o A \o P(orr) \o B \o P(an) \o C
Denote(s, l) == { i - 1 : i \in { j \in 1..NAt : Ev(s, l, j) } }
VARIABLES shape, ls, sp, ph
vars == <<shape, ls, sp, ph>>
Init == shape = "L" /\ ls = <<>> /\ sp = <<"and","or","not">> /\ ph = 0
First == ph = 0 /\ ph' = 1 /\ ls' \in { <<l>> : l \in LeafSet } /\ shape' \in {"L", "nL"} /\ sp' \in { <<"and","or",n>> : n \in {"not","!"} }
Second == /\ ph = 1 /\ shape = "L" /\ ls[1] \in RepLeaves /\ ph' = 2
          /\ \E s \in Shapes2, l \in (IF Full THEN LeafSet ELSE MidLeaves) : shape' = s /\ ls' = Append(ls, l)
          /\ sp' \in { <<a, o, n>> : a \in {"and","&&"}, o \in {"or","||"}, n \in {"not","!"} }
Third == /\ ph = 2 /\ shape \in {"LaL"} /\ ls[2] \in RepLeaves /\ sp = <<"and","or","not">> /\ ph' = 3
         /\ (Full \/ (ls[1] \in Rep3 /\ ls[2] \in Rep3))
         /\ \E s \in Shapes3, l \in (IF Full THEN RepLeaves ELSE Rep3) : shape' = s /\ ls' = Append(ls, l)
         /\ sp' \in { <<a, o, n>> : a \in {"and","&&"}, o \in {"or","||"}, n \in {"not","!"} }
\* malformed productions: token strings outside the language; the only acceptable outcome is an error
Malformed == { <<W("name"), S("bare","CA"), W("and")>>, <<W("and"), W("name"), S("bare","CA")>>, <<W("("), W("name"), S("bare","CA")>>,
               <<W("name"), S("bare","CA"), W(")")>>, <<W("name"), W("==")>>, <<W("=="), S("bare","CA")>>, <<W("resid"), I(1), W("to")>>,
               <<W("resid"), W("to"), I(3)>>, <<W("name"), S("bare","CA"), W("or"), W("or"), W("name"), S("bare","N")>>,
               <<W("not")>>, <<W("name")>>, <<W("resid")>>, <<W("("), W(")")>>, <<W("name"), S("bare","CA"), W("&&"), W("||"), W("protein")>>,
               <<W("protein"), W("water")>>, <<W("resid"), W("<")>>, <<W("name"), W("=~")>> }
Bad == ph = 0 /\ ph' = 9 /\ shape' = "BAD" /\ sp' = sp /\ ls' \in { <<Leaf(Sem("bad", "", "", 0, 0, "", ""), m)>> : m \in Malformed }
Next == First \/ Second \/ Third \/ Bad
Spec == Init /\ [][Next]_vars
Emit == IF shape' = "BAD"
        THEN PrintT(<<"TR", ToJson([toks |-> ls'[1].toks, sel |-> {}, shape |-> "BAD", kinds |-> <<"bad">>])>>)
        ELSE PrintT(<<"TR", ToJson([toks |-> Layout(shape', ls', sp'[1], sp'[2], sp'[3]), sel |-> Denote(shape', ls'), shape |-> shape',
                                    kinds |-> [k \in 1..Len(ls') |-> ls'[k].sem.t]])>>)
\* internal consistency of the specification itself (De Morgan on the two negated-paren shapes)
DeMorgan == (ph \in {2, 3} /\ shape = "npLaLp") => Denote(shape, ls) = { i - 1 : i \in { j \in 1..NAt : ~EvalLeaf(ls[1].sem, j) \/ ~EvalLeaf(ls[2].sem, j) } }
\* fully parenthesised meaning of the three-leaf shapes agrees with the precedence reading (sanity of Ev itself)
PrecedenceSane == (ph = 3 /\ shape = "LaLoL") => Denote(shape, ls) = Denote("LoLaL", <<ls[3], ls[1], ls[2]>>)
=======================================================================
