---------------------------- MODULE FileGuard ----------------------------
(* Property C20: the file system under mdtraj's writers and readers.
   A file holds Absent, pre-existing content <<"old", kind>>, or the content written by step k of the
   behaviour, <<"new", k, nframes>>.  For the multi-file restart formats (rst7, ncrst) saving n > 1
   frames at path p touches the numbered companions p.1 .. p.n and not p itself. *)
EXTENDS Integers, Sequences, FiniteSets, TLC, Json
CONSTANTS PreKinds,      \* kinds of pre-existing content of the main file: "valid", "longer", "junk", "dir"
          D,             \* number of operations after the set-up step
          MultiFile,     \* the format writes path.k per frame when saving more than one frame
          NF             \* number of frames of a multi-frame save (2, or 10: the numbered names are zero-padded to the width of NF)
VARIABLES fs, hist, phase, fs0     \* fs0: what the set-up step put on disk (kept for export)
vars == <<fs, hist, phase, fs0>>
Absent == <<"absent", "", 0>>
Old(kd) == <<"old", kd, 0>>
New(id, n) == <<"new", "", id * 100 + n>>
Maybe == <<"maybe", "", 0>>            \* absent or freshly written: not constrained by the property
Files == 0..NF                                  \* 0: the path itself; 1..NF: numbered companions
Loadable(c) == c[1] = "new" \/ (c[1] = "old" /\ c[2] \in {"valid", "longer"})
Targets(n) == IF MultiFile /\ n > 1 THEN 1..n ELSE {0}
Log(r) == hist' = Append(hist, r)
Init == fs = [f \in Files |-> Absent] /\ hist = <<>> /\ phase = "setup" /\ fs0 = [f \in Files |-> Absent]
\* the set-up step chooses what already exists on disk
Setup == /\ phase = "setup" /\ phase' = "run" /\ hist' = hist
         /\ \E c0 \in {Absent} \cup {Old(kd) : kd \in PreKinds} :
            \* which numbered companions already exist: none, only the first, only the last, all but the last, all; valid or junk
            \E pat \in (IF MultiFile THEN {"none", "first", "last", "allbutlast", "all"} ELSE {"none"}), kd \in (IF MultiFile THEN {"valid", "junk"} ELSE {"valid"}) :
               /\ fs' = [f \in Files |-> IF f = 0 THEN c0
                                         ELSE IF (pat = "first" /\ f = 1) \/ (pat = "last" /\ f = NF) \/ (pat = "allbutlast" /\ f < NF) \/ pat = "all"
                                              THEN Old(kd) ELSE Absent]
               /\ fs0' = fs'
\* Save / open-for-write(+write+close): refused iff some target exists and overwriting was not requested.
\* mdtraj creates the numbered files one after another, so with fo = FALSE the (absent) files before the
\* first existing one are created before the error is raised; existing files are never touched.
FirstBlocked(n, fo) == IF fo THEN 0 ELSE
     LET ks == { k \in Targets(n) : fs[k] # Absent } IN IF ks = {} THEN -1 ELSE CHOOSE k \in ks : \A j \in ks : k <= j
NoMaybe == \A f \in Files : fs[f] # Maybe
WriteOp(entry, n, fo) ==
  LET tg == Targets(n)  id == Len(hist) + 1  b == FirstBlocked(n, fo) IN
  /\ phase = "run" /\ Len(hist) < D
  \* on a refusal (b >= 0) the property only protects what exists: whether absent targets before the first existing one
  \* have meanwhile been created is left open ("maybe": absent or new)
  /\ fs' = [f \in Files |-> IF f \in tg /\ (fo \/ b = -1) THEN New(id, IF tg = {0} THEN n ELSE 1)
                            ELSE IF f \in tg /\ fs[f] = Absent /\ b >= 0 THEN Maybe ELSE fs[f]]
  /\ Log([op |-> entry, n |-> n, fo |-> fo, ok |-> (fo \/ b = -1)])
  /\ UNCHANGED <<phase, fs0>>
\* open for writing and close without writing anything: the property fixes only the refusal and its purity.
\* Whether an (empty) file is left behind is up to the format (DCD and DTR create their file lazily), and with
\* fo = TRUE an existing file may be removed, replaced by an empty one, or survive until the first write.
OpenOnly(fo) ==
  /\ phase = "run" /\ Len(hist) < D /\ NoMaybe
  /\ LET blocked == ~fo /\ fs[0] # Absent IN
     /\ IF blocked THEN fs' = fs
        ELSE \E c \in {New(Len(hist) + 1, 0), Absent, fs[0]} : fs' = [fs EXCEPT ![0] = c]
     /\ Log([op |-> "open_only", n |-> 0, fo |-> fo, ok |-> ~blocked])
  /\ UNCHANGED <<phase, fs0>>
\* a save request that is invalid for reasons of its own (an option the format does not take, data the format cannot hold):
\* it is refused whatever is on disk, and with force_overwrite=False nothing that exists may change
BadSave == /\ phase = "run" /\ Len(hist) < D /\ NoMaybe
           /\ fs' = fs /\ Log([op |-> "bad_save", n |-> 1, fo |-> FALSE, ok |-> FALSE])
           /\ UNCHANGED <<phase, fs0>>
ReadOp(entry) == /\ phase = "run" /\ Len(hist) < D /\ NoMaybe /\ Loadable(fs[0]) /\ ~(fs[0][1] = "new" /\ fs[0][3] % 100 = 0)
                 /\ UNCHANGED <<fs, phase, fs0>> /\ Log([op |-> entry, n |-> 0, fo |-> FALSE, ok |-> TRUE])
Next == \/ Setup
        \/ \E n \in {1, NF}, fo \in BOOLEAN : WriteOp("save", n, fo)
        \/ \E fo \in BOOLEAN : WriteOp("open_w", 1, fo)
        \/ \E fo \in BOOLEAN : OpenOnly(fo)
        \/ BadSave
        \/ \E e \in {"load", "load_frame", "iterload", "open_r", "load_topology"} : ReadOp(e)
Spec == Init /\ [][Next]_vars
\* ---- properties -------------------------------------------------------------------
Step == hist'[Len(hist')]
Acted == hist' # hist
IsWrite(s) == s.op \in {"save", "open_w", "open_only", "bad_save"}
NoClobber == [][Acted /\ IsWrite(Step) /\ ~Step.fo => \A f \in Files : (fs[f] # Absent /\ fs[f] # Maybe) => fs'[f] = fs[f]]_vars
RefusedIffExists == [][Acted /\ IsWrite(Step) /\ Step.op # "bad_save" /\ ~Step.fo =>
                        (Step.ok <=> \A f \in Targets(Step.n) : fs[f] = Absent)]_vars   \* (histories do not continue after a refusal that left Maybe files)
FullReplace == [][Acted /\ Step.op \in {"save", "open_w"} /\ Step.fo =>
                   /\ Step.ok
                   /\ \A f \in Targets(Step.n) : fs'[f][1] = "new" /\ fs'[f][3] \div 100 = Len(hist')
                   /\ \A f \in Files \ Targets(Step.n) : fs'[f] = fs[f]]_vars
ReadsPure == [][Acted /\ ~IsWrite(Step) => fs' = fs]_vars
Emit == Acted => PrintT(<<"TR", ToJson([hist |-> hist', pre |-> fs, post |-> fs', init |-> fs0])>>)
=======================================================================
