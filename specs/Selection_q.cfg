SPECIFICATION Spec
CONSTANT Full = FALSE
INVARIANT DeMorgan
INVARIANT PrecedenceSane
ACTION_CONSTRAINT Emit
CHECK_DEADLOCK FALSE
