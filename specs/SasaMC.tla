---------------------------- MODULE SasaMC ----------------------------
(* Model-checking instance: all small incidences x masks x groupings; the structural clauses of C13. *)
EXTENDS Sasa, TLC
CONSTANTS NA, NP
Bits == [1..NP -> BOOLEAN]
VARIABLES buried, sel, map, ph
vars == <<buried, sel, map, ph>>
Init == buried = [i \in 1..NA |-> [j \in 1..NP |-> FALSE]] /\ sel = [i \in 1..NA |-> TRUE] /\ map = [i \in 1..NA |-> 1] /\ ph = 0
PickInc == ph = 0 /\ ph' = 1 /\ buried' \in [1..NA -> Bits] /\ UNCHANGED <<sel, map>>
PickSel == ph = 1 /\ ph' = 2 /\ sel' \in [1..NA -> BOOLEAN] /\ map' \in { m \in [1..NA -> 1..2] : \A i \in 1..(NA-1) : m[i] <= m[i+1] } /\ UNCHANGED buried
Next == PickInc \/ PickSel
Spec == Init /\ [][Next]_vars
\* residue mode is the sum of atom mode over each residue's selected atoms
Additive == ph = 2 => \A g \in 1..2 : GroupValue(AtomOut(buried, sel), map, sel, g) =
                         SumOver({ i \in 1..NA : map[i] = g /\ sel[i] }, [i \in 1..NA |-> Count(buried, i)])
\* restricting the output to a subset does not change the values of the atoms kept
SubsetIndependent == ph = 2 => \A i \in 1..NA : sel[i] => AtomOut(buried, sel)[i] = AtomOut(buried, [k \in 1..NA |-> TRUE])[i]
MinusOne == ph = 2 => \A i \in 1..NA : ~sel[i] => AtomOut(buried, sel)[i] = -1
\* an isolated atom (nothing buried) gets the full sphere
Isolated == ph = 2 => \A i \in 1..NA : (sel[i] /\ \A j \in 1..NP : ~buried[i][j]) => AtomOut(buried, sel)[i] = NP
=======================================================================
