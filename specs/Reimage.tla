---------------------------- MODULE Reimage ----------------------------
(* Property C11: make_molecules_whole moves atoms only by lattice vectors and makes molecules whole.
   The bond walk of image_molecules.pxi:make_whole is modelled step by step on the integer lattice of IntVec:
   for each bond (atom1, atom2) of the list handed to it, atom2 is moved by the lattice vector obtained from
   successive rounding along c, b, a of (pos[atom2] - pos[atom1]).
   Order = "sorted": the list is the topology's bonds sorted by their first atom (what the pinned
                     Trajectory.make_molecules_whole passed) -- TLC finds BondsWhole violated (vacuity guard);
   Order = "placement": every step attaches a not yet placed atom to an already placed one (any such order) --
                     the intended design, for which LatticeMoves and BondsWhole hold. *)
EXTENDS IntVec, TLC, Json
CONSTANTS Order, NShift
\* molecule templates: compact (all atoms within a window much shorter than half the cell), 4 atoms
Templates == << << <<0,0,0>>, <<1,1,0>>, <<2,1,1>>, <<3,2,1>> >>,      \* chain 1-2-3-4
                << <<1,1,1>>, <<2,1,1>>, <<1,2,1>>, <<1,1,2>> >>,      \* star centred on atom 1
                << <<0,0,0>>, <<1,0,1>>, <<2,1,1>>, <<1,1,0>> >> >>    \* ring 1-2-3-4-1
TBonds == << { {1,2}, {2,3}, {3,4} }, { {1,2}, {1,3}, {1,4} }, { {1,2}, {2,3}, {3,4}, {4,1} } >>
Cells == << << <<9,0,0>>, <<0,10,0>>, <<0,0,11>> >>, << <<10,0,0>>, <<-5,9,0>>, <<0,0,9>> >>,
            << <<10,0,0>>, <<-3,10,0>>, <<-3,-4,9>> >>, << <<9,0,0>>, <<13,9,0>>, <<-14,7,9>> >> >>
Shifts(cell) == << <<0,0,0>>, cell[1], Add(Mul(-1, cell[2]), cell[3]), Add(cell[1], Sub(cell[2], cell[3])), Mul(2, cell[3]), Mul(-2, cell[1]) >>
Perms == { p \in [1..4 -> 1..4] : \A i, j \in 1..4 : i # j => p[i] # p[j] }
VARIABLES cell, pos0, pos, bonds, walk, k, placed, ph
vars == <<cell, pos0, pos, bonds, walk, k, placed, ph>>
Init == /\ cell = Cells[1] /\ pos0 = <<>> /\ pos = <<>> /\ bonds = {} /\ walk = <<>> /\ k = 0 /\ placed = {} /\ ph = 0
\* bonds as the topology lists them: (label-ordered or reversed) pairs, sorted by first atom, ties by second
SortedBonds(bs, rev) == LET pairs == { IF rev THEN <<MaxOf(b), MinOf(b)>> ELSE <<MinOf(b), MaxOf(b)>> : b \in bs }
                            RECURSIVE S(_) S(T) == IF T = {} THEN <<>> ELSE
                                 LET m == CHOOSE x \in T : \A y \in T : x[1] < y[1] \/ (x[1] = y[1] /\ x[2] <= y[2]) IN <<m>> \o S(T \ {m})
                        IN S(pairs)
\* choose molecule, labelling, scramble and cell
Setup == /\ ph = 0 /\ ph' = 1
         /\ \E ci \in 1..Len(Cells), ti \in 1..Len(Templates), p \in Perms, rev \in BOOLEAN, sh \in [1..4 -> 1..NShift] :
              /\ cell' = Cells[ci]
              /\ pos0' = [a \in 1..4 |-> LET t == CHOOSE u \in 1..4 : p[u] = a IN Add(Templates[ti][t], Shifts(Cells[ci])[sh[a]])]
              /\ bonds' = { {p[MinOf(b)], p[MaxOf(b)]} : b \in TBonds[ti] }
              /\ walk' = IF Order = "sorted" THEN SortedBonds({ {p[MinOf(b)], p[MaxOf(b)]} : b \in TBonds[ti] }, rev) ELSE <<>>
         /\ pos' = pos0' /\ k' = 0 /\ placed' = {1}
\* the move of image_molecules.pxi:make_whole for one bond
MoveSet(a1, a2) == LET d == Sub(pos[a2], pos[a1]) IN
   UNION { LET o3 == Mul(k3, cell[3]) IN
           UNION { LET o2 == Add(o3, Mul(k2, cell[2])) IN { Add(o2, Mul(k1, cell[1])) : k1 \in Rounds(d[1] - o2[1], cell[1][1]) }
                   : k2 \in Rounds(d[2] - o3[2], cell[2][2]) }
           : k3 \in Rounds(d[3], cell[3][3]) }
StepSorted == /\ ph = 1 /\ Order = "sorted" /\ k < Len(walk) /\ k' = k + 1
              /\ \E off \in MoveSet(walk[k+1][1], walk[k+1][2]) : pos' = [pos EXCEPT ![walk[k+1][2]] = Sub(@, off)]
              /\ UNCHANGED <<cell, pos0, bonds, walk, placed, ph>>
StepPlacement == /\ ph = 1 /\ Order = "placement" /\ placed # 1..4
                 /\ \E b \in bonds : \E a1 \in b \cap placed, a2 \in b \ placed :
                       /\ \E off \in MoveSet(a1, a2) : pos' = [pos EXCEPT ![a2] = Sub(@, off)]
                       /\ placed' = placed \cup {a2} /\ walk' = Append(walk, <<a1, a2>>)
                 /\ k' = k + 1 /\ UNCHANGED <<cell, pos0, bonds, ph>>
Next == Setup \/ StepSorted \/ StepPlacement
Spec == Init /\ [][Next]_vars
Done == ph = 1 /\ (IF Order = "sorted" THEN k = Len(walk) ELSE placed = 1..4)
\* ---- properties ----------------------------------------------------------------------
LatticeMoves == ph = 1 => \A a \in 1..4 : IsLattice(Sub(pos[a], pos0[a]), cell)
BondsWhole == Done => \A b \in bonds : N2(Sub(pos[MinOf(b)], pos[MaxOf(b)])) = TrueMin2(Sub(pos0[MinOf(b)], pos0[MaxOf(b)]), cell)
\* every minimum-image observable is unchanged (follows from LatticeMoves; checked on all pairs anyway)
ObservablesKept == Done => \A a, b \in 1..4 : TrueMin2(Sub(pos[a], pos[b]), cell) = TrueMin2(Sub(pos0[a], pos0[b]), cell)
BondSeq == SortedBonds(bonds, FALSE)
Emit == (ph = 0 /\ ph' = 1) => PrintT(<<"TR", ToJson([cell |-> cell', pos0 |-> pos0', walk |-> walk', bonds |-> SortedBonds(bonds', FALSE),
                   mind2 |-> [i \in 1..Len(SortedBonds(bonds', FALSE)) |-> TrueMin2(Sub(pos0'[SortedBonds(bonds', FALSE)[i][1]], pos0'[SortedBonds(bonds', FALSE)[i][2]]), cell')]])>>)
=======================================================================
