SPECIFICATION Spec
CONSTANTS N = 6
 MaxHB = 2
INVARIANT OnePerResidue
INVARIANT NAExactlySkip
INVARIANT HelixWithinChain
INVARIANT SimplifiedIsImage
INVARIANT NoBondsNoStructure
CHECK_DEADLOCK FALSE
