---------------------------- MODULE Angles ----------------------------
(* Property C07: angles and dihedrals equal their geometric definitions, periodic or not; named torsions.
   Part A: exact fingerprints on the integer lattice.  For a triplet the angle at the middle atom between
   u = p1 - p2 and v = p3 - p2 has sign(cos) = sgn(u.v) and cos^2 = (u.v)^2 / (|u|^2 |v|^2); for a quartet with
   b1 = p2 - p1, b2 = p3 - p2, b3 = p4 - p3 (IUPAC): sin sign = sgn(b1 . (b2 x b3)), cos sign = sgn((b1 x b2) . (b2 x b3)),
   cos^2 = ((b1 x b2).(b2 x b3))^2 / (|b1 x b2|^2 |b2 x b3|^2).  Under periodic boundary conditions the bond vectors are
   the minimum images (IntVec.AlgoVec); the base geometries are compact, so MicRecovers shows they are recovered from any
   per-atom lattice shift.
   Part B: named backbone / side-chain torsions as atom-name patterns over residue sequences with chain breaks. *)
EXTENDS IntVec, TLC, Json
CONSTANTS Mode      \* "angle" | "dihedral" | "torsions"
Cube == { <<x,y,z>> : x \in -2..2, y \in -2..2, z \in -2..2 }
Axis == { <<1,0,0>>, <<1,1,0>>, <<1,1,1>>, <<2,1,0>>, <<0,0,2>>, <<-1,2,0>> }
AngleFp(u, v) == [sc |-> Sgn(Dot(u, v)), num |-> Dot(u, v) * Dot(u, v), den |-> N2(u) * N2(v)]
DihFp(b1, b2, b3) == LET c1 == Cross(b2, b3)  c2 == Cross(b1, b2)  p2 == Dot(c1, c2) IN
                     [ss |-> Sgn(Dot(b1, c1)), sc |-> Sgn(p2), num |-> p2 * p2, den |-> N2(c1) * N2(c2)]
DihDefined(b1, b2, b3) == N2(Cross(b2, b3)) > 0 /\ N2(Cross(b1, b2)) > 0
Neg(v) == Mul(-1, v)
\* cells used for the periodic recovery claim (and by the driver): orthorhombic, hexagonal-like, triclinic, unreduced
Cells == { << <<12,0,0>>, <<0,13,0>>, <<0,0,14>> >>, << <<12,0,0>>, <<-6,11,0>>, <<0,0,12>> >>,
           << <<12,0,0>>, <<-4,12,0>>, <<-4,-5,11>> >>, << <<11,0,0>>, <<15,11,0>>, <<-17,8,11>> >> }
ShiftsOf(cell) == { Lattice(cell, i, j, k) : i \in {-2, 0, 1}, j \in {-1, 0, 2}, k \in {-1, 0, 1} }
MicRecoversVec(d) == \A cell \in Cells : \A s \in ShiftsOf(cell) : AlgoVec(Add(d, s), cell) = {d}
VARIABLES p, ph
vars == <<p, ph>>
Init == p = <<>> /\ ph = 0
\* ---------------- Part A ---------------------------------------------------------------------
PickAngle0 == /\ Mode = "angle" /\ ph = 0 /\ ph' = 5 /\ \E p1 \in Cube \ {<<0,0,0>>} : p' = <<p1, <<0,0,0>>>>
PickAngle == /\ Mode = "angle" /\ ph = 5 /\ ph' = 1 /\ \E p3 \in Cube \ {<<0,0,0>>} : p' = Append(p, p3)
\* all bond vectors that occur (differences of cube points): checked once for periodic recovery
PickMic == /\ Mode = "mic" /\ ph = 0 /\ ph' = 1 /\ \E d \in { <<x,y,z>> : x \in -4..4, y \in -4..4, z \in -4..4 } : p' = <<d>>
PickDih1 == /\ Mode = "dihedral" /\ ph = 0 /\ ph' = 1 /\ \E p3 \in Axis, p1 \in Cube : p' = <<p1, <<0,0,0>>, p3>>
PickDih2 == /\ Mode = "dihedral" /\ ph = 1 /\ ph' = 2 /\ \E d \in Cube : p' = Append(p, Add(p[3], d))
\* ---------------- Part B: named torsions --------------------------------------------------------
\* a residue = [chain, names]; residue kinds: complete backbone with a long side chain (LYS-like), valine-like,
\* glycine, missing C, missing N, proline-like, water
Kinds == [ LYS |-> {"N","CA","C","O","CB","CG","CD","CE","NZ"}, VAL |-> {"N","CA","C","O","CB","CG1","CG2"},
           GLY |-> {"N","CA","C","O"}, NOC |-> {"N","CA","O","CB"}, NON |-> {"CA","C","O","CB"},
           ARG |-> {"N","CA","C","O","CB","CG","CD","NE","CZ","NH1","NH2"}, HOH |-> {"O","H1","H2"} ]
PickTorsions == /\ Mode = "torsions" /\ ph = 0 /\ ph' = 1
                /\ \E n \in 2..3 : \E ks \in [1..n -> DOMAIN Kinds] : \E brk \in 0..n :    \* chain break after residue brk (0: one chain)
                      p' = [i \in 1..n |-> [kind |-> ks[i], chain |-> IF brk # 0 /\ i > brk THEN 2 ELSE 1]]
Has(i, nm) == nm \in Kinds[p[i].kind]
SameChain(i, j) == j \in 1..Len(p) /\ p[i].chain = p[j].chain
\* pattern = sequence of <<offset, name>>; defined at residue i iff every residue i+offset exists IN THE SAME CHAIN and has the atom
Match(i, pat) == \A k \in 1..4 : (i + pat[k][1]) \in 1..Len(p) /\ SameChain(i, i + pat[k][1]) /\ Has(i + pat[k][1], pat[k][2])
Quartet(i, pat) == [k \in 1..4 |-> <<i + pat[k][1], pat[k][2]>>]
PHI == << <<-1,"C">>, <<0,"N">>, <<0,"CA">>, <<0,"C">> >>
PSI == << <<0,"N">>, <<0,"CA">>, <<0,"C">>, <<1,"N">> >>
OMEGA == << <<0,"CA">>, <<0,"C">>, <<1,"N">>, <<1,"CA">> >>
Local(a, b, c, d) == << <<0,a>>, <<0,b>>, <<0,c>>, <<0,d>> >>
CHI1 == { Local("N","CA","CB",x) : x \in {"CG","CG1","SG","OG","OG1"} }
CHI2 == { Local("CA","CB","CG","CD"), Local("CA","CB","CG","CD1"), Local("CA","CB","CG1","CD1"), Local("CA","CB","CG","OD1"),
          Local("CA","CB","CG","ND1"), Local("CA","CB","CG","SD") }
CHI3 == { Local("CB","CG","CD","NE"), Local("CB","CG","CD","CE"), Local("CB","CG","CD","OE1"), Local("CB","CG","SD","CE") }
CHI4 == { Local("CG","CD","NE","CZ"), Local("CG","CD","CE","NZ") }
CHI5 == { Local("CD","NE","CZ","NH1") }
Expected(pats) == { Quartet(i, pat) : i \in { j \in 1..Len(p) : TRUE }, pat \in { q \in pats : TRUE } } \cap
                  { Quartet(i, pat) : i \in 1..Len(p), pat \in pats }
Found(pats) == { Quartet(i, pat) : <<i, pat>> \in { <<j, q>> \in (1..Len(p)) \X pats : Match(j, q) } }
Next == PickAngle0 \/ PickMic \/ PickAngle \/ PickDih1 \/ PickDih2 \/ PickTorsions
Spec == Init /\ [][Next]_vars
\* ---------------- properties ---------------------------------------------------------------------
AngleCase == Mode = "angle" /\ ph = 1
DihCase == Mode = "dihedral" /\ ph = 2
U == Sub(p[1], p[2])  V == Sub(p[3], p[2])
B1 == Sub(p[2], p[1])  B2 == Sub(p[3], p[2])  B3 == Sub(p[4], p[3])
\* reversing the atom order leaves angle and dihedral unchanged
ReverseAngle == AngleCase => AngleFp(U, V) = AngleFp(V, U)
ReverseDih == (DihCase /\ DihDefined(B1, B2, B3)) => DihFp(B1, B2, B3) = DihFp(Neg(B3), Neg(B2), Neg(B1))
\* mirroring the structure negates the dihedral (sin sign flips, cosine unchanged) and keeps angles
MirrorDih == (DihCase /\ DihDefined(B1, B2, B3)) =>
                LET f == DihFp(B1, B2, B3)  g == DihFp(Neg(B1), Neg(B2), Neg(B3)) IN g.ss = -f.ss /\ g.sc = f.sc /\ g.num = f.num /\ g.den = f.den
RangeOK == (AngleCase => AngleFp(U, V).num <= AngleFp(U, V).den) /\ ((DihCase /\ DihDefined(B1, B2, B3)) => DihFp(B1, B2, B3).num <= DihFp(B1, B2, B3).den)
\* the bond vectors are recovered as minimum images from any per-atom lattice shift in every cell
MicRecovers == (Mode = "mic" /\ ph = 1) => MicRecoversVec(p[1])
\* a named torsion never spans a chain break and uses exactly the documented atom names
TorsionLocal == (Mode = "torsions" /\ ph = 1) => \A q \in Found({PHI, PSI, OMEGA}) : \A k \in 1..3 : p[q[k][1]].chain = p[q[k+1][1]].chain
SetToSeq(S) == LET RECURSIVE F(_) F(T) == IF T = {} THEN <<>> ELSE LET x == CHOOSE y \in T : TRUE IN <<x>> \o F(T \ {x}) IN F(S)
Emit == \/ (Mode = "mic") \/ (Mode = "angle" /\ ph' = 5)
        \/ (Mode = "angle" /\ ph' = 1 /\ PrintT(<<"TR", ToJson([mode |-> "angle", p |-> p', fp |-> AngleFp(Sub(p'[1], p'[2]), Sub(p'[3], p'[2]))])>>))
        \/ (Mode = "dihedral" /\ ph' = 1)
        \/ (Mode = "dihedral" /\ ph' = 2 /\
              LET b1 == Sub(p'[2], p'[1])  b2 == Sub(p'[3], p'[2])  b3 == Sub(p'[4], p'[3]) IN
              IF DihDefined(b1, b2, b3) THEN PrintT(<<"TR", ToJson([mode |-> "dihedral", p |-> p', fp |-> DihFp(b1, b2, b3)])>>) ELSE TRUE)
        \/ (Mode = "torsions" /\ ph' = 1 /\
              LET P == p' IN PrintT(<<"TR", ToJson([mode |-> "torsions", res |-> p',
                 phi |-> SetToSeq({ [k \in 1..4 |-> <<i + PHI[k][1], PHI[k][2]>>] : i \in { j \in 1..Len(p') : \A k \in 1..4 : (j + PHI[k][1]) \in 1..Len(p') /\ p'[j].chain = p'[j + PHI[k][1]].chain /\ PHI[k][2] \in Kinds[p'[j + PHI[k][1]].kind] } }),
                 psi |-> SetToSeq({ [k \in 1..4 |-> <<i + PSI[k][1], PSI[k][2]>>] : i \in { j \in 1..Len(p') : \A k \in 1..4 : (j + PSI[k][1]) \in 1..Len(p') /\ p'[j].chain = p'[j + PSI[k][1]].chain /\ PSI[k][2] \in Kinds[p'[j + PSI[k][1]].kind] } }),
                 omega |-> SetToSeq({ [k \in 1..4 |-> <<i + OMEGA[k][1], OMEGA[k][2]>>] : i \in { j \in 1..Len(p') : \A k \in 1..4 : (j + OMEGA[k][1]) \in 1..Len(p') /\ p'[j].chain = p'[j + OMEGA[k][1]].chain /\ OMEGA[k][2] \in Kinds[p'[j + OMEGA[k][1]].kind] } }),
                 chi |-> [c \in 1..5 |-> SetToSeq({ [k \in 1..4 |-> <<jq[1], jq[2][k][2]>>] :
                             jq \in { x \in (1..Len(p')) \X (CASE c = 1 -> CHI1 [] c = 2 -> CHI2 [] c = 3 -> CHI3 [] c = 4 -> CHI4 [] OTHER -> CHI5) :
                                      \A k \in 1..4 : x[2][k][2] \in Kinds[p'[x[1]].kind] } })] ])>>))
=======================================================================
