---------------------------- MODULE SasaTrace ----------------------------
(* Trace validation for C13: each record is one frame of one real md.shrake_rupley call: the logged accessible-point
   counts (area / (4 pi r^2 / n), rounded), the incidence bits computed independently in float64 on the documented point
   set, the near-surface bits, the atom->group mapping and the selection mask. *)
EXTENDS Sasa, Json, IOUtils, TLCExt, TLC
Tr == JsonDeserialize(IOEnv.TRACE_FILE).recs
VARIABLE l
Init == l = 1
Abs(x) == IF x < 0 THEN -x ELSE x
B(r) == [i \in 1..Len(r.buried) |-> [j \in 1..Len(r.buried[i]) |-> r.buried[i][j] = 1]]
Nr(r) == [i \in 1..Len(r.near) |-> [j \in 1..Len(r.near[i]) |-> r.near[i][j] = 1]]
Sel(r) == [i \in 1..Len(r.sel) |-> r.sel[i] = 1]
\* atom mode: obs[i] is the logged count of atom i (or -1)
AtomOK(r) == \A i \in 1..Len(r.buried) :
                IF Sel(r)[i] THEN Abs(r.obs[i] - Count(B(r), i)) <= NearCount(Nr(r), i) ELSE r.obs[i] = -1
\* residue mode: obs[g] = logged area of group g and atomvals[i] = logged atom-mode area of atom i on the same frame, both in
\* units of 1e-6 nm^2; a group without any selected atom reports -1 (= -1000000 units)
GroupOK(r) == \A g \in 1..r.ngroups :
                IF GroupHasSel(r.map, Sel(r), g) THEN Abs(r.obs[g] - GroupValue(r.atomvals, r.map, Sel(r), g)) <= r.tol
                ELSE r.obs[g] = -1000000
Check(k) == LET r == Tr[k] IN
   IF (r.mode = "atom" /\ AtomOK(r)) \/ (r.mode = "residue" /\ GroupOK(r)) THEN PrintT(<<"ACCEPT", r.id>>)
   ELSE PrintT(<<"REJECT", r.id, r.mode,
                 IF r.mode = "atom" THEN { <<i, r.obs[i], IF Sel(r)[i] THEN Count(B(r), i) ELSE -1>> : i \in { a \in 1..Len(r.buried) :
                         ~(IF Sel(r)[a] THEN Abs(r.obs[a] - Count(B(r), a)) <= NearCount(Nr(r), a) ELSE r.obs[a] = -1) } }
                 ELSE {}>>)
Next == l <= Len(Tr) /\ Check(l) /\ l' = l + 1
Spec == Init /\ [][Next]_l
=======================================================================
