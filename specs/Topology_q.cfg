SPECIFICATION Spec
CONSTANTS Obj = {1,2,3}
 D = 2
 Dev = {}
 Family = {"copy", "deepcopy", "pickle", "subset", "join", "dataframe", "hdf5", "pdb", "delete_atom", "add_bond"}
 KeepFamily = {}
INVARIANT CopyPreserves
INVARIANT Contiguous
INVARIANT BondsOwnAtoms
INVARIANT Disjoint
INVARIANT SubsetBonds
PROPERTY Independent
VIEW View
ACTION_CONSTRAINT Emit
CHECK_DEADLOCK FALSE
