SPECIFICATION Spec
CONSTANTS Obj = {1,2,3}
 D = 2
 Dev = {}
 KeepFamily = {}
INVARIANT CopyPreserves
INVARIANT Contiguous
INVARIANT BondsOwnAtoms
INVARIANT Disjoint
INVARIANT SubsetBonds
PROPERTY Independent
VIEW View
ACTION_CONSTRAINT Emit
CHECK_DEADLOCK FALSE
