SPECIFICATION Spec
CONSTANTS MaxL = 3
 MaxS = 1
 R = 4
 UseCatalogue = FALSE
INVARIANT LatticeCongruent
INVARIANT NeverBelow
INVARIANT ExactOrtho
INVARIANT ExactInRange
ACTION_CONSTRAINT Emit
CHECK_DEADLOCK FALSE
