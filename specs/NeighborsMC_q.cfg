SPECIFICATION Spec
CONSTANTS MaxL = 4
 MaxS = 2
 R = 4
INVARIANT KernelDecidesExactly
INVARIANT SymmetricDef
CHECK_DEADLOCK FALSE
