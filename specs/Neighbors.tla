---------------------------- MODULE Neighbors ----------------------------
(* Property C10: neighbour searches return exactly the atoms within the cutoff.
   Definitions on the integer lattice of IntVec: positions pos[i] (1-based atom ids), an optional cell, and a
   cutoff given as c4 = (2*cutoff)^2 with 2*cutoff odd, so that no lattice pair is ever at the threshold
   (4*d2 is even, c4 is odd): the property's 1e-5 exclusion band is respected by construction.
   The second part transcribes the kernel of compute_neighbors (neighbors.cpp: box reduction + successive
   wrap, WITHOUT an image search) so that TLC decides when it equals the definition. *)
EXTENDS IntVec, TLC
\* squared minimum-image (or plain) distance between atoms i and j
D2(pos, cell, periodic, i, j) == IF periodic THEN TrueMin2(Sub(pos[i], pos[j]), cell) ELSE N2(Sub(pos[i], pos[j]))
Within(pos, cell, periodic, c4, i, j) == 4 * D2(pos, cell, periodic, i, j) < c4
\* compute_neighbors: haystack atoms (other than the query atom itself) within the cutoff of at least one query atom,
\* in the order of the haystack and without duplicates
NeighSeq(pos, cell, periodic, c4, query, haystack) ==
  LET hit(h) == \E q \in 1..Len(query) : query[q] # h /\ Within(pos, cell, periodic, c4, h, query[q])
      F[k \in 0..Len(haystack)] == IF k = 0 THEN <<>>
                                   ELSE IF hit(haystack[k]) /\ (\A m \in 1..(k-1) : haystack[m] # haystack[k]) THEN Append(F[k-1], haystack[k]) ELSE F[k-1]
  IN F[Len(haystack)]
\* compute_neighborlist: for every atom the set of other atoms within the cutoff
NeighList(pos, cell, periodic, c4) == [i \in 1..Len(pos) |-> { j \in 1..Len(pos) : j # i /\ Within(pos, cell, periodic, c4, i, j) }]
\* is atom i inside the primary (reduced) cell?  fractional coordinates in [0,1) along c, then b, then a
InPrimaryOf(p, rc) == LET c == rc[3] b == rc[2] a == rc[1]
                           Y == p[2] * c[3] - c[2] * p[3]                      \* (y after removing the c part) * c_z
                           X == (p[1] * c[3] - c[1] * p[3]) * b[2] - Y * b[1]  \* (x after removing c and b parts) * c_z * b_y
                       IN /\ 0 <= p[3] /\ p[3] < c[3]
                          /\ 0 <= Y /\ Y < b[2] * c[3]
                          /\ 0 <= X /\ X < a[1] * b[2] * c[3]
\* on a rounding tie the box has two admissible reductions: an atom counts as inside only if it is inside for all of them
InPrimary(p, cell) == \A rc \in ReduceSet(cell) : InPrimaryOf(p, rc)
\* the brick-shaped fundamental domain 0 <= x < a_x, 0 <= y < b_y, 0 <= z < c_z that the voxel builder of compute_neighborlist works in
BrickWrap(p, rc) == LET p1 == Sub(p, Mul(FloorDiv(p[3], rc[3][3]), rc[3]))
                        p2 == Sub(p1, Mul(FloorDiv(p1[2], rc[2][2]), rc[2])) IN Sub(p2, Mul(FloorDiv(p2[1], rc[1][1]), rc[1]))
\* an atom that lies exactly on a face of that domain (for some admissible reduction of the box)
OnFace(p, cell) == \E rc \in ReduceSet(cell) : LET w == BrickWrap(p, rc) IN w[1] = 0 \/ w[2] = 0 \/ w[3] = 0
\* ---- the kernel of compute_neighbors on a triclinic cell: reduce, wrap along c, b, a -- no 27-image search ----------
WrapOnly2(r, cell) == UNION { { N2(w) : w \in WrapSet(r, rc) } : rc \in ReduceSet(cell) }
\* design-level claim checked by TLC on the case enumeration of NeighborsMC: inside the range in which the property
\* compares with compute_distances (cutoff <= half the smallest cell width) the wrap-only kernel decides "within cutoff" exactly
=======================================================================
