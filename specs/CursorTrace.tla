---------------------------- MODULE CursorTrace ----------------------------
(* Trace validation for Cursor: every recorded call (handle, op, argument, result, tell() afterwards)
   of many recorded histories is matched against the Cursor actions.  Fully logged, hence deterministic:
   a history is REJECTed at the first event no action explains; the remaining histories are still checked. *)
EXTENDS Cursor, IOUtils, TLCExt
VARIABLES tid, l, used    \* used: names of the deviations that actually fired in this history
TraceFile == JsonDeserialize(IOEnv.TRACE_FILE)
Tr == TraceFile.traces
NT == Len(Tr)
tvars == <<pos, lenSeen, hist, tid, l, used>>
TInit == Init /\ tid = 1 /\ l = 1 /\ used = {}
Ev == Tr[tid][l]
Matches == /\ hist' = Append(hist, [h |-> Ev.h, op |-> Ev.op, arg |-> Ev.arg, ret |-> Ev.ret, pos |-> Ev.pos])
Consume == /\ tid <= NT /\ l <= Len(Tr[tid])
           /\ LET h == Ev.h IN
              \/ Ev.op = "read" /\ Read(h, Ev.arg)
              \/ Ev.op = "readall" /\ ReadAll(h)
              \/ Ev.op = "seek" /\ CanSeek /\ pos' = [pos EXCEPT ![h] = Ev.arg] /\ lenSeen' = [lenSeen EXCEPT ![h] = TRUE]
                                /\ Log(h, "seek", Ev.arg, <<>>, Ev.arg)
              \/ Ev.op = "seekrel" /\ CanSeek /\ pos' = [pos EXCEPT ![h] = pos[h] + Ev.arg] /\ lenSeen' = [lenSeen EXCEPT ![h] = TRUE]
                                /\ Log(h, "seekrel", Ev.arg, <<>>, pos[h] + Ev.arg)
              \* TRR: read() with nothing left raises (np.concatenate of no chunks) after one more failed decode
              \/ Ev.op = "exc:readall" /\ "trr_readall_at_eof_raises" \in Dev /\ pos[h] >= N
                    /\ pos' = [pos EXCEPT ![h] = pos[h] + 1] /\ UNCHANGED lenSeen
                    /\ Log(h, "exc:readall", 0, <<>>, pos[h] + 1)
              \* TRR: once the position has overshot N, a relative seek that is in range for the true position
              \* is computed from the overshot counter and refused
              \/ Ev.op = "exc:seekrel" /\ "trr_eof_overcount" \in Dev /\ pos[h] + Ev.arg \notin 0..(N-1)
                    /\ UNCHANGED <<pos, lenSeen>> /\ Log(h, "exc:seekrel", Ev.arg, <<>>, pos[h])
              \/ Ev.op = "tell" /\ Tell(h)
              \/ Ev.op = "len" /\ LenOp(h)
           /\ Matches
           /\ used' = used \cup
                 (IF Ev.op = "exc:readall" THEN {"trr_readall_at_eof_raises"}
                  ELSE IF Ev.op = "exc:seekrel" THEN {"trr_eof_overcount"}
                  ELSE IF Ev.op \in {"read", "readall"} /\ Ev.pos # Min(pos[Ev.h] + (IF Ev.op = "read" THEN Ev.arg ELSE N), N)
                       THEN Dev \ {"trr_readall_at_eof_raises"} ELSE {})
           /\ l' = l + 1 /\ tid' = tid
NextTrace == /\ tid <= NT /\ l > Len(Tr[tid])
             /\ PrintT(<<"ACCEPT", tid, used>>)
             /\ tid' = tid + 1 /\ l' = 1
             /\ pos' = [h \in Handles |-> 0] /\ lenSeen' = [h \in Handles |-> FALSE] /\ hist' = <<>> /\ used' = {}
Reject == /\ tid <= NT /\ l <= Len(Tr[tid]) /\ ~ENABLED Consume
          /\ PrintT(<<"REJECT", tid, l>>)
          /\ tid' = tid + 1 /\ l' = 1
          /\ pos' = [h \in Handles |-> 0] /\ lenSeen' = [h \in Handles |-> FALSE] /\ hist' = <<>> /\ used' = {}
TNext == Consume \/ NextTrace \/ Reject
TSpec == TInit /\ [][TNext]_tvars
Done == tid = NT + 1
=======================================================================
