---------------------------- MODULE Sasa ----------------------------
(* Property C13: Shrake-Rupley solvent-accessible areas on the documented golden-spiral point set.
   The quadrature points are irrational, so the specification takes the point incidence as data:
   buried[i][j] = "point j of atom i's probe-expanded sphere lies inside some other atom's expanded sphere",
   near[i][j]   = "that point lies within 1e-5 nm of another atom's expanded surface" (excluded from exact comparison,
   as the property allows).  Areas are carried as accessible-point COUNTS (area = count * 4 pi (r+probe)^2 / n).
   Group (residue) values, the selection mask and the -1 marking are defined here exactly. *)
EXTENDS Integers, Sequences, FiniteSets
\* accessible points of atom i in one frame
Count(buried, i) == Cardinality({ j \in 1..Len(buried[i]) : ~buried[i][j] })
NearCount(near, i) == Cardinality({ j \in 1..Len(near[i]) : near[i][j] })
\* atom mode: selected atoms report their count, unselected atoms -1
AtomOut(buried, sel) == [i \in 1..Len(buried) |-> IF sel[i] THEN Count(buried, i) ELSE -1]
\* residue mode: group g is the sum over its SELECTED atoms; a group without any selected atom reports -1.
\* (groups mix atoms of different radii, so group values are sums of per-atom AREAS in a common integer unit)
GroupHasSel(map, sel, g) == \E i \in 1..Len(map) : map[i] = g /\ sel[i]
RECURSIVE SumOver(_,_)
SumOver(S, f) == IF S = {} THEN 0 ELSE LET x == CHOOSE y \in S : TRUE IN f[x] + SumOver(S \ {x}, f)   \* f: a function on S
\* value of group g from per-atom values (any additive unit)
GroupValue(vals, map, sel, g) == SumOver({ i \in 1..Len(map) : map[i] = g /\ sel[i] }, vals)
=======================================================================
