---------------------------- MODULE FrameLoop ----------------------------
(* Properties C08 / C13: a parallel per-frame loop with thread-private scratch (sasa.cpp's
   `omp parallel private(...)` + `omp for`, the Cython pranges of _rmsd.pyx and drid.pyx).
   A frame's result must not depend on which thread ran it, on what that thread processed before, or on how the
   threads interleave.  The kernel is abstract: the published value of a frame is the sequence of frames whose data
   have been accumulated into the thread's scratch buffer when the frame is published -- <<f>> when the buffer is
   reset per frame (ResetPerFrame = TRUE, the property), longer when it is not (what sasa.cpp did: areas[i]++ on top
   of the previous frame's values).  Schedules: any assignment of frames to threads (dynamic), or contiguous static
   blocks in increasing order (what libgomp does for an unclaused `omp for`). *)
EXTENDS Integers, Sequences, FiniteSets, TLC
CONSTANTS T, F, ResetPerFrame, StaticOnly
Threads == 1..T
Frames == 1..F
VARIABLES todo,      \* frames not yet claimed
          cur,       \* [Threads -> frame being processed or 0]
          scratch,   \* [Threads -> sequence of frames accumulated into the private buffer]
          out,       \* [Frames -> value published, <<>> until done]
          owner      \* [Frames -> thread] static pre-assignment (used when StaticOnly)
vars == <<todo, cur, scratch, out, owner>>
Blocks == { o \in [Frames -> Threads] : \A f, g \in Frames : f < g => o[f] <= o[g] }   \* contiguous static blocks
Init == /\ todo = Frames /\ cur = [t \in Threads |-> 0] /\ scratch = [t \in Threads |-> <<>>]
        /\ out = [f \in Frames |-> <<>>] /\ owner \in Blocks
Begin(t, f) == /\ cur[t] = 0 /\ f \in todo /\ (StaticOnly => owner[f] = t /\ \A g \in todo : owner[g] = t => f <= g)
               /\ todo' = todo \ {f} /\ cur' = [cur EXCEPT ![t] = f]
               /\ scratch' = [scratch EXCEPT ![t] = (IF ResetPerFrame THEN <<>> ELSE scratch[t]) \o <<f>>]
               /\ UNCHANGED <<out, owner>>
Publish(t) == /\ cur[t] # 0 /\ out' = [out EXCEPT ![cur[t]] = scratch[t]] /\ cur' = [cur EXCEPT ![t] = 0]
              /\ UNCHANGED <<todo, scratch, owner>>
Next == \E t \in Threads : (\E f \in Frames : Begin(t, f)) \/ Publish(t)
Spec == Init /\ [][Next]_vars /\ WF_vars(Next)
\* the property: every published value is the kernel applied to that frame alone
ScheduleFree == \A f \in Frames : out[f] # <<>> => out[f] = <<f>>
\* outputs are written once, to the slot of their own frame
WriteOnce == [][\A f \in Frames : out[f] # <<>> => out'[f] = out[f]]_vars
AllPublished == <>(\A f \in Frames : out[f] # <<>>)
=======================================================================
