---------------------------- MODULE Descriptors ----------------------------
(* Property C16: derived descriptors equal their defining formulas (the algebraic ones; see DESIGN.md for the transcendental
   ones that have no exact discrete form).  Everything is evaluated on integer lattice configurations (IntVec) of a model
   topology given as data: atoms = [res, name, h (hydrogen), side (side-chain atom), m (integer mass)], residues = [chain, gly].
   - residue contacts: membership per scheme, the default pair list, the minimum squared distance over the designated atom
     pairs (plain or minimum image) with the residue pair it belongs to;
   - centre of mass / geometry as integer numerators over a common denominator, N^2 Rg^2, W^2 Rg_w^2, the scatter tensor N*T;
   - radial distribution function: exact histogram counts with bin edges at half-integers (no lattice distance is on an edge);
   - total mass and cell volume for the density. *)
EXTENDS IntVec, TLC, Json
SetToSeq2(S) == LET RECURSIVE F(_) F(T) == IF T = {} THEN <<>> ELSE LET x == CHOOSE y \in T : \A z \in T : y[1] < z[1] \/ (y[1] = z[1] /\ y[2] <= z[2]) IN <<x>> \o F(T \ {x}) IN F(S)
\* ---- contacts -----------------------------------------------------------------------------------
HasCA(atoms, r) == \E i \in 1..Len(atoms) : atoms[i].res = r /\ atoms[i].name = "CA"
Members(atoms, residues, scheme, r) ==
   { i \in 1..Len(atoms) : atoms[i].res = r /\
        CASE scheme = "ca" -> atoms[i].name = "CA"
          [] scheme = "closest" -> TRUE
          [] scheme = "closest-heavy" -> ~atoms[i].h
          [] scheme = "sidechain" -> atoms[i].side
          [] scheme = "sidechain-heavy" -> atoms[i].side /\ (residues[r].gly \/ ~atoms[i].h) }
\* default pair list ("all"): residues at least three apart, in the same chain, both with an alpha carbon
AllPairs(atoms, residues) == { <<r, s>> \in (1..Len(residues)) \X (1..Len(residues)) :
                                 s >= r + 3 /\ residues[r].chain = residues[s].chain /\ HasCA(atoms, r) /\ HasCA(atoms, s) }
PairD2(pos, cell, periodic, i, j) == IF periodic THEN TrueMin2(Sub(pos[i], pos[j]), cell) ELSE N2(Sub(pos[i], pos[j]))
ContactD2(atoms, residues, pos, cell, periodic, scheme, r, s) ==
   LET A == Members(atoms, residues, scheme, r)  B == Members(atoms, residues, scheme, s) IN
   IF A = {} \/ B = {} THEN -1 ELSE MinOf({ PairD2(pos, cell, periodic, i, j) : i \in A, j \in B })
\* every designated atom-pair squared distance of a residue pair (the soft minimum beta / log sum exp(beta / d_i) runs over all of them;
\* it is evaluated in doubles by the harness from these exact integers)
ContactAllD2(atoms, residues, pos, cell, periodic, scheme, r, s) ==
   LET A == Members(atoms, residues, scheme, r)  B == Members(atoms, residues, scheme, s)
       ps == SetToSeq2(A \X B) IN [m \in 1..Len(ps) |-> PairD2(pos, cell, periodic, ps[m][1], ps[m][2])]
\* ---- centres, radius of gyration, tensors -----------------------------------------------------
SumOverAtoms(n, f(_)) == LET S[i \in 0..n] == IF i = 0 THEN 0 ELSE S[i-1] + f(i) IN S[n]
ComNum(atoms, pos) == [k \in 1..3 |-> SumOverAtoms(Len(atoms), LAMBDA i : atoms[i].m * pos[i][k])]
MassSum(atoms) == SumOverAtoms(Len(atoms), LAMBDA i : atoms[i].m)
CogNum(pos) == [k \in 1..3 |-> SumOverAtoms(Len(pos), LAMBDA i : pos[i][k])]
Rg2N2(pos) == Len(pos) * SumOverAtoms(Len(pos), LAMBDA i : N2(pos[i])) - N2(<<CogNum(pos)[1], CogNum(pos)[2], CogNum(pos)[3]>>)
\* weighted: W^2 Rg_w^2 = W sum w |x|^2 - |sum w x|^2
RgW(w, pos) == LET W == SumOverAtoms(Len(pos), LAMBDA i : w[i])
                   sx == [k \in 1..3 |-> SumOverAtoms(Len(pos), LAMBDA i : w[i] * pos[i][k])] IN
               <<W * SumOverAtoms(Len(pos), LAMBDA i : w[i] * N2(pos[i])) - N2(<<sx[1], sx[2], sx[3]>>), W>>
\* gyration tensor times N^2:  N sum x_a x_b - (sum x_a)(sum x_b)
GyrN2(pos) == LET n == Len(pos)  s == CogNum(pos) IN
              [a \in 1..3 |-> [b \in 1..3 |-> n * SumOverAtoms(n, LAMBDA i : pos[i][a] * pos[i][b]) - s[a] * s[b]]]
\* ---- radial distribution function: counts of pair distances in [lo2k+1, ...) half-integer bins ----------------
\* bin b (1-based) holds distances d with (2*lo + 2b - 1)/2 <= d < (2*lo + 2b + 1)/2  i.e.  (2lo+2b-1)^2 <= 4 d2 < (2lo+2b+1)^2
RdfCounts(pos, cell, periodic, pairs, lo, nbins) ==
   [b \in 1..nbins |-> Cardinality({ k \in 1..Len(pairs) :
        LET d2 == PairD2(pos, cell, periodic, pairs[k][1], pairs[k][2]) IN
        (2*lo + 2*b - 1) * (2*lo + 2*b - 1) <= 4 * d2 /\ 4 * d2 < (2*lo + 2*b + 1) * (2*lo + 2*b + 1) })]
\* ---- DRID: for every selected atom, the squared distances to the selected atoms that are neither itself nor bonded to it -----
\* (the moments of the reciprocal distances are evaluated in doubles by the harness from these exact integers)
DridPartners(bonds, sel, i) == { j \in sel : j # i /\ ~\E b \in 1..Len(bonds) : (bonds[b][1] = i /\ bonds[b][2] = j) \/ (bonds[b][2] = i /\ bonds[b][1] = j) }
SortedSeq(S) == LET RECURSIVE F(_) F(T) == IF T = {} THEN <<>> ELSE LET x == CHOOSE y \in T : \A z \in T : y <= z IN <<x>> \o F(T \ {x}) IN F(S)
DridD2(pos, bonds, sel, i) == LET ps == SortedSeq(DridPartners(bonds, sel, i)) IN [m \in 1..Len(ps) |-> <<ps[m], N2(Sub(pos[i], pos[ps[m]]))>>]
\* ---- dipole moment of a neutral charge set: sum q x (origin independent) ------------------------------------------------
\* periodic variant as documented: sum_i q_i ( mic(r_first(i) - r_1) + mic(r_i - r_first(i)) ) with first(i) the first atom of i's residue;
\* defined only where every minimum image involved is unique and below half the smallest cell width
FirstOf(atoms, i) == CHOOSE j \in 1..Len(atoms) : atoms[j].res = atoms[i].res /\ \A k \in 1..Len(atoms) : atoms[k].res = atoms[i].res => j <= k
\* (for cells with even entries the half-width test is made on the halved cell: the direct one overflows TLC's 32-bit integers)
AllEven(c) == \A i \in 1..3, j \in 1..3 : c[i][j] % 2 = 0
HalfCell(c) == << <<c[1][1] \div 2, c[1][2] \div 2, c[1][3] \div 2>>, <<c[2][1] \div 2, c[2][2] \div 2, c[2][3] \div 2>>, <<c[3][1] \div 2, c[3][2] \div 2, c[3][3] \div 2>> >>
InHalf(d2, c) == IF AllEven(c) THEN BelowHalfWidth((d2 + 3) \div 4, HalfCell(c)) ELSE BelowHalfWidth(d2, c)
MicOK(r, cell) == LET vs == AlgoVec(r, cell) IN Cardinality(vs) = 1 /\ \A v \in vs : InHalf(N2(v), cell)
MicVec(r, cell) == CHOOSE v \in AlgoVec(r, cell) : TRUE
DipolePeriodicOK(atoms, pos, cell) == \A i \in 1..Len(atoms) : MicOK(Sub(pos[FirstOf(atoms, i)], pos[1]), cell) /\ MicOK(Sub(pos[i], pos[FirstOf(atoms, i)]), cell)
DipolePeriodic(q, atoms, pos, cell) == [c \in 1..3 |-> SumOverAtoms(Len(pos), LAMBDA i :
     q[i] * (MicVec(Sub(pos[FirstOf(atoms, i)], pos[1]), cell)[c] + MicVec(Sub(pos[i], pos[FirstOf(atoms, i)]), cell)[c]))]
DipoleNum(q, pos) == [c \in 1..3 |-> SumOverAtoms(Len(pos), LAMBDA i : q[i] * pos[i][c])]
=======================================================================
