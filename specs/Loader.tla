---------------------------- MODULE Loader ----------------------------
(* Property C02: partial loading equals slicing the fully loaded trajectory.
   md.iterload is modelled as the loop the code runs over a cursor (seek(skip); repeat
   read(chunk, stride) until an empty chunk), md.load / md.load_frame / md.load([..]) as single
   actions.  A file is the sequence of frame ids 0..n-1 (for a list of files the ids of the second
   file continue after the first), an atom subset is a strictly increasing sequence of atom ids.
   One behaviour = one configuration chosen in the first step. *)
EXTENDS Integers, Sequences, FiniteSets, TLC, Json
CONSTANTS MaxN, MaxStride, AtomSets, Dev
VARIABLES kind, n, n2, chunk, stride, skip, frame, atoms, pos, out, pc,
          status,   \* "ok" | "raises" | "nonterminating" | "undefined" (only deviations produce anything but ok)
          fired     \* name of the deviation that shaped this behaviour, "" for the property's own meaning
vars == <<kind, n, n2, chunk, stride, skip, frame, atoms, pos, out, pc, status, fired>>
Min(a,b) == IF a < b THEN a ELSE b
\* all atoms; irregular; single; contiguous; evenly spaced; uneven with span = first gap * (n-1) (looks evenly spaced to a careless test)
AtomSetsDef == {<<>>, <<0, 2, 5>>, <<3>>, <<4, 5, 6, 7>>, <<1, 4, 7, 10>>, <<0, 2, 3, 6, 8>>, <<2, 5, 6, 9, 10>>}   \* cfg files cannot hold tuples: AtomSets <- AtomSetsDef
\* strided read contract of the file classes: at most k frames p, p+s, ... (< nn);
\* the position advances over k*s file frames (never past the end)
StridedIds(p, k, s, nn) == LET m == Min(k, (nn - p + s - 1) \div s) IN
                           [i \in 1..(IF p >= nn THEN 0 ELSE m) |-> p + (i-1)*s]
Slice(lo, s, nn) == LET cnt == IF lo >= nn THEN 0 ELSE (nn - lo + s - 1) \div s IN [i \in 1..cnt |-> lo + (i-1)*s]
Init == /\ kind = "none" /\ n = 0 /\ n2 = 0 /\ chunk = 0 /\ stride = 1 /\ skip = 0 /\ frame = 0
        /\ atoms = <<>> /\ pos = 0 /\ out = <<>> /\ pc = "config" /\ status = "ok" /\ fired = ""
ConfigIter == /\ pc = "config" /\ kind' = "iterload"
              /\ n' \in 1..MaxN /\ stride' \in 1..MaxStride
              /\ chunk' \in 0..(MaxN+1) /\ skip' \in 0..MaxN /\ atoms' \in AtomSets
              /\ skip' <= n' /\ chunk' <= n' + 1
              /\ pos' = 0 /\ out' = <<>> /\ pc' = "seek" /\ UNCHANGED <<n2, frame, status, fired>>
ConfigLoad == /\ pc = "config" /\ kind' = "load"
              /\ n' \in 1..MaxN /\ stride' \in 1..MaxStride /\ atoms' \in AtomSets
              /\ pc' = "load" /\ UNCHANGED <<n2, chunk, skip, frame, pos, out, status, fired>>
ConfigFrame == /\ pc = "config" /\ kind' \in {"load_frame", "load_frame_kw"}
               /\ n' \in 1..MaxN /\ frame' \in 0..(MaxN-1) /\ frame' < n' /\ atoms' \in AtomSets
               /\ pc' = "frame" /\ UNCHANGED <<n2, chunk, stride, skip, pos, out, status, fired>>
ConfigList == /\ pc = "config" /\ kind' = "load_list"
              /\ n' \in 1..MaxN /\ n2' \in 1..MaxN /\ stride' \in 1..MaxStride /\ atoms' \in AtomSets
              /\ pc' = "list" /\ UNCHANGED <<chunk, skip, frame, pos, out, status, fired>>
\* --- named deviations of the pinned code (all in Cython sources; used only for known-finding triage) ----
\* XTC/TRR: seek(k) refuses k = number of frames, so iterload(skip = n_frames) raises instead of yielding nothing
SeekEofRefused == "seek_eof_refused" \in Dev /\ chunk > 0 /\ skip = n /\ skip > 0
\* XTC: after a seek the reader strides by seeking; at the end of the file it reports the last frame again
\* and again without advancing, so the iterload generator never finishes
XtcRepeatsLast == "xtc_strided_after_seek_repeats_last" \in Dev /\ chunk > 0 /\ skip > 0 /\ skip < n /\ stride > 1
\* TRR: the stride scratch buffer is sized for the atom subset but filled with all atoms (heap overflow)
TrrOverflow == "trr_stride_atom_subset_overflow" \in Dev /\ stride > 1 /\ atoms # <<>>
\* DTR: read_as_traj drops n_frames (reads everything that remains, every stride-th) and the position advances by
\* the number of frames returned, not by the span
DtrIds(p, s, nn) == Slice(p, s, nn)
Dtr == "dtr_read_as_traj_ignores_n_frames" \in Dev
Finish(st, dv) == pc' = "done" /\ status' = st /\ fired' = dv
\* --- iterload ----------------------------------------------------------------
SeekSkip == /\ pc = "seek"
            /\ IF SeekEofRefused THEN Finish("raises", "seek_eof_refused") /\ UNCHANGED <<pos, out>>
               ELSE IF XtcRepeatsLast THEN Finish("nonterminating", "xtc_strided_after_seek_repeats_last") /\ UNCHANGED <<pos, out>>
               ELSE IF TrrOverflow /\ chunk > 0 THEN Finish("undefined", "trr_stride_atom_subset_overflow") /\ UNCHANGED <<pos, out>>
               ELSE pos' = skip /\ pc' = (IF chunk = 0 THEN "all" ELSE "loop") /\ UNCHANGED <<out, status, fired>>
            /\ UNCHANGED <<kind, n, n2, chunk, stride, skip, frame, atoms>>
\* chunk = 0: a single chunk holding the strided, skipped remainder (implemented as load(...)[skip::stride])
ReadAllOnce == /\ pc = "all"
               /\ out' = <<StridedIds(pos, n + 1, stride, n)>> /\ pos' = n /\ pc' = "done"
               /\ UNCHANGED <<kind, n, n2, chunk, stride, skip, frame, atoms, status, fired>>
LoopStep == /\ pc = "loop"
            /\ IF Dtr
               THEN LET ids == DtrIds(pos, stride, n) IN
                    IF Len(ids) = 0 THEN Finish("ok", "dtr_read_as_traj_ignores_n_frames") /\ UNCHANGED <<pos, out>>
                    ELSE out' = Append(out, ids) /\ pos' = pos + Len(ids) /\ pc' = "loop" /\ UNCHANGED <<status, fired>>
               ELSE LET ids == StridedIds(pos, chunk, stride, n) IN
                    IF Len(ids) = 0 THEN pc' = "done" /\ UNCHANGED <<pos, out, status, fired>>
                    ELSE out' = Append(out, ids) /\ pos' = Min(pos + chunk*stride, n) /\ pc' = "loop" /\ UNCHANGED <<status, fired>>
            /\ UNCHANGED <<kind, n, n2, chunk, stride, skip, frame, atoms>>
\* --- single-shot loaders ---------------------------------------------------
DoLoad == /\ pc = "load"
          /\ IF TrrOverflow THEN Finish("undefined", "trr_stride_atom_subset_overflow") /\ UNCHANGED out
             ELSE out' = <<Slice(0, stride, n)>> /\ pc' = "done" /\ UNCHANGED <<status, fired>>
          /\ UNCHANGED <<kind, n, n2, chunk, stride, skip, frame, atoms, pos>>
\* DTR: load(frame=i) seeks to i and then reads everything that remains
DoFrame == /\ pc = "frame"
           /\ IF Dtr /\ frame < n - 1 THEN out' = <<Slice(frame, 1, n)>> /\ Finish("ok", "dtr_read_as_traj_ignores_n_frames")
              ELSE out' = <<<<frame>>>> /\ pc' = "done" /\ UNCHANGED <<status, fired>>
           /\ UNCHANGED <<kind, n, n2, chunk, stride, skip, frame, atoms, pos>>
\* load([f1, f2]): the second file's frames are numbered n .. n+n2-1
DoList == /\ pc = "list"
          /\ IF TrrOverflow THEN Finish("undefined", "trr_stride_atom_subset_overflow") /\ UNCHANGED out
             ELSE /\ out' = << Slice(0, stride, n) \o [i \in 1..Len(Slice(0, stride, n2)) |-> n + Slice(0, stride, n2)[i]] >>
                  /\ pc' = "done" /\ UNCHANGED <<status, fired>>
          /\ UNCHANGED <<kind, n, n2, chunk, stride, skip, frame, atoms, pos>>
Next == ConfigIter \/ ConfigLoad \/ ConfigFrame \/ ConfigList \/ SeekSkip \/ ReadAllOnce \/ LoopStep
        \/ DoLoad \/ DoFrame \/ DoList
Spec == Init /\ [][Next]_vars /\ WF_vars(Next)
\* ---- properties ----
Flat(ss) == LET RECURSIVE F(_) F(k) == IF k = 0 THEN <<>> ELSE F(k-1) \o ss[k] IN F(Len(ss))
Full(nn) == [i \in 1..nn |-> i - 1]
\* numpy slicing semantics full[lo::s]
NpSlice(seq, lo, s) == LET cnt == IF lo >= Len(seq) THEN 0 ELSE (Len(seq) - lo + s - 1) \div s IN
                       [i \in 1..cnt |-> seq[lo + (i-1)*s + 1]]
ConcatIsStridedSkipped == (pc = "done" /\ kind = "iterload") => Flat(out) = NpSlice(Full(n), skip, stride)
ChunkSizes == (pc = "done" /\ kind = "iterload" /\ chunk > 0) =>
                 /\ \A i \in 1..(Len(out)-1) : Len(out[i]) = chunk
                 /\ Len(out) > 0 => Len(out[Len(out)]) \in 1..chunk
OneChunkWhenZero == (pc = "done" /\ kind = "iterload" /\ chunk = 0) => Len(out) = 1
LoadIsSlice == (pc = "done" /\ kind = "load") => out = <<NpSlice(Full(n), 0, stride)>>
FrameIsIndex == (pc = "done" /\ kind \in {"load_frame", "load_frame_kw"}) => out = <<<<Full(n)[frame + 1]>>>>
ListIsJoin == (pc = "done" /\ kind = "load_list") =>
                 Flat(out) = NpSlice(Full(n), 0, stride) \o NpSlice([i \in 1..n2 |-> n + i - 1], 0, stride)
Terminates == <>(pc = "done")
Emit == pc' = "done" => PrintT(<<"TR", ToJson([kind |-> kind, n |-> n, n2 |-> n2, chunk |-> chunk, stride |-> stride,
                                               skip |-> skip, frame |-> frame, atoms |-> atoms, out |-> out',
                                               status |-> status', dev |-> fired'])>>)
=======================================================================
