---------------------------- MODULE Molecules ----------------------------
(* Topology.find_molecules (used by image_molecules, C11; beyond the listed properties): the molecules of a topology are the
   connected components of its bond graph.  Every bond graph on N atoms is enumerated (atoms are identified by their index, so
   every interleaving of the molecules in index order occurs); the components are computed by transitive closure and checked to
   be a partition into connected sets; each graph is emitted with its components for the replay. *)
EXTENDS Integers, FiniteSets, Sequences, TLC, Json
CONSTANT N
Atoms == 0..(N - 1)
Pairs == { <<i, j>> \in Atoms \X Atoms : i < j }
VARIABLES bonds, ph
Init == bonds = {} /\ ph = 0
\* staged: first the bonds of atom 0, then the rest (so that TLC's workers share the enumeration)
Pick0 == ph = 0 /\ ph' = 1 /\ bonds' \in SUBSET { p \in Pairs : p[1] = 0 }
Pick1 == ph = 1 /\ ph' = 2 /\ \E more \in SUBSET { p \in Pairs : p[1] # 0 } : bonds' = bonds \cup more
Next == Pick0 \/ Pick1
Spec == Init /\ [][Next]_<<bonds, ph>>
Adj(b, i, j) == <<i, j>> \in b \/ <<j, i>> \in b
\* atoms reachable from i: iterate the neighbourhood N times
Reach(b, i) == LET F[k \in 0..N] == IF k = 0 THEN {i} ELSE F[k-1] \cup { j \in Atoms : \E x \in F[k-1] : Adj(b, x, j) } IN F[N]
Components(b) == { Reach(b, i) : i \in Atoms }
Partition == ph = 2 => /\ UNION Components(bonds) = Atoms
                       /\ \A A, B \in Components(bonds) : A = B \/ A \cap B = {}
Closed == ph = 2 => \A A \in Components(bonds) : \A i \in A, j \in Atoms : Adj(bonds, i, j) => j \in A
SetSeq(S) == LET RECURSIVE F(_) F(T) == IF T = {} THEN <<>> ELSE LET x == CHOOSE y \in T : \A z \in T : y <= z IN <<x>> \o F(T \ {x}) IN F(S)
CompSeq(b) == LET cs == Components(b)
                  RECURSIVE G(_) G(T) == IF T = {} THEN <<>> ELSE LET c == CHOOSE y \in T : \A z \in T : SetSeq(y)[1] <= SetSeq(z)[1] IN <<SetSeq(c)>> \o G(T \ {c}) IN G(cs)
PairSeq(S) == LET RECURSIVE F(_) F(T) == IF T = {} THEN <<>> ELSE LET x == CHOOSE y \in T : \A z \in T : y[1] < z[1] \/ (y[1] = z[1] /\ y[2] <= z[2]) IN <<x>> \o F(T \ {x}) IN F(S)
Emit == ph' = 2 => PrintT(<<"TR", ToJson([bonds |-> PairSeq(bonds'), comps |-> CompSeq(bonds')])>>)
=======================================================================
