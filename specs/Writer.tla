---------------------------- MODULE Writer ----------------------------
(* Property C19: incremental writing through a trajectory file object.
   The first write fixes the schema (atom count, presence of cell / time / further per-frame fields); a later write with another
   schema is a ragged write and must be refused leaving the accepted frames intact; after close the
   file holds exactly the accepted frames (one-shot equivalence); after write+flush a crash loses
   nothing (durability).  Frames are ids 0,1,2,...; `acc` = accepted, `dur` = known durable. *)
EXTENDS Integers, Sequences, FiniteSets, TLC, Json
CONSTANTS MaxFrames,   \* total frames offered to the writer in one behaviour
          MaxWrite,    \* largest single write
          HasFlush,    \* the class offers flush() (or writes unbuffered)
          CellOpt,     \* cell information may be given or omitted per write
          TimeOpt,     \* time information may be given or omitted per write
          CanAppend,   \* the file can be closed and re-opened for appending (HDF5 mode 'a')
          Crashes,     \* explore crash points (only meaningful for the live-output formats)
          ExtraOpt,    \* further optional per-frame fields may be given or omitted per write (HDF5: velocities, alchemicalLambda, ...)
          Dev
Schemas == [natoms : {1, 2}, cell : IF CellOpt THEN BOOLEAN ELSE {TRUE}, time : IF TimeOpt THEN BOOLEAN ELSE {TRUE},
            extra : IF ExtraOpt THEN BOOLEAN ELSE {FALSE}]
VARIABLES schema, acc, dur, status, nextId, hist, loaded, rag
vars == <<schema, acc, dur, status, nextId, hist, loaded, rag>>
NoSchema == [natoms |-> 0, cell |-> FALSE, time |-> FALSE, extra |-> FALSE]
IsPrefix(s, t) == Len(s) <= Len(t) /\ \A i \in 1..Len(s) : s[i] = t[i]
Log(op, k, s, ok) == hist' = Append(hist, [op |-> op, k |-> k, s |-> s, ok |-> ok])
Init == /\ schema = NoSchema /\ acc = <<>> /\ dur = <<>> /\ status = "open" /\ nextId = 0
        /\ hist = <<>> /\ loaded = <<>> /\ rag = 0
Write(k, s) ==
  /\ status = "open" /\ nextId + k <= MaxFrames
  /\ LET ids == [i \in 1..k |-> nextId + i - 1] IN
     IF schema = NoSchema \/ s = schema
     THEN /\ acc' = acc \o ids /\ schema' = s /\ Log("write", k, s, TRUE) /\ rag' = rag
     ELSE /\ rag = 0 /\ rag' = 1                   \* at most one ragged attempt per behaviour
          /\ UNCHANGED <<acc, schema>> /\ Log("write", k, s, FALSE)   \* refused, nothing retained
  /\ nextId' = nextId + k /\ UNCHANGED <<dur, status, loaded>>
Flush == /\ status = "open" /\ HasFlush /\ hist # <<>> /\ hist[Len(hist)].op = "write"
         /\ dur' = acc /\ Log("flush", 0, NoSchema, TRUE)
         /\ UNCHANGED <<schema, acc, status, nextId, loaded, rag>>
Close == /\ status = "open" /\ dur' = acc /\ status' = "closed" /\ loaded' = acc /\ Log("close", 0, NoSchema, TRUE)
         /\ UNCHANGED <<schema, acc, nextId, rag>>
Reopen == /\ CanAppend /\ status = "closed" /\ acc # <<>> /\ nextId < MaxFrames
          /\ \A i \in 1..Len(hist) : hist[i].op # "reopen"
          /\ status' = "open" /\ Log("reopen", 0, NoSchema, TRUE)
          /\ UNCHANGED <<schema, acc, dur, nextId, loaded, rag>>
Crash == /\ Crashes /\ status = "open" /\ status' = "crashed" /\ Log("crash", 0, NoSchema, TRUE)
         /\ \E m \in Len(dur)..Len(acc) : loaded' = SubSeq(acc, 1, m)         \* some prefix extending what was flushed
         /\ UNCHANGED <<schema, acc, dur, nextId, rag>>
Next == (\E k \in 1..MaxWrite, s \in Schemas : Write(k, s)) \/ Flush \/ Close \/ Reopen \/ Crash
Spec == Init /\ [][Next]_vars
\* ---- properties --------------------------------------------------------------------
OneShotEquivalence == status = "closed" => loaded = acc
Durable == status = "crashed" => IsPrefix(dur, loaded) /\ IsPrefix(loaded, acc)
DurableIsAccepted == IsPrefix(dur, acc)
RefusalIsClean == [][(hist' # hist /\ hist'[Len(hist')].op = "write" /\ ~hist'[Len(hist')].ok) => (acc' = acc /\ dur' = dur /\ schema' = schema)]_vars
AppendOnly == [][IsPrefix(acc, acc') /\ IsPrefix(dur, dur')]_vars
\* ---- export: one test per terminal behaviour -----------------------------------------
Emit == (status' # "open") =>
           PrintT(<<"TR", ToJson([hist |-> hist', lo |-> Len(dur), acc |-> acc, status |-> status'])>>)
=======================================================================
