---------------------------- MODULE Formats ----------------------------
(* Property C01: save then load reproduces the trajectory, in every writable format.
   The specification is the table of what each writable format stores (native length unit, coordinate quantum, whether time
   and which part of the unit cell is stored, one file or a numbered series, field limits) plus the integer quantisation
   arithmetic that says which native numbers a file may hold for a coordinate and what an independent reader must get back.
   Lengths are integers in U = 1e-5 nm (1e-4 Angstrom), times in 1e-3 ps, angles in degrees.
   TLC checks the table is coherent (decode o encode within the format's stated precision; quantisation monotone; the field
   limits really fit the field) for every value of the pattern domain, and emits one replay case per
   (extension, atoms, frames, coordinate pattern, cell kind, time pattern, option) with the expected native numbers. *)
EXTENDS Integers, Sequences, FiniteSets, TLC, Json

Exts == {"h5", "xtc", "trr", "dcd", "nc", "netcdf", "ncdf", "mdcrd", "crd", "xyz", "xyz.gz", "lammpstrj", "gro", "pdb", "pdb.gz", "dtr", "rst7", "ncrst"}
Kind(e) == CASE e \in {"nc", "netcdf", "ncdf"} -> "nc" [] e \in {"mdcrd", "crd"} -> "mdcrd" [] e \in {"xyz", "xyz.gz"} -> "xyz" [] e \in {"pdb", "pdb.gz"} -> "pdb" [] OTHER -> e

\* native length unit expressed in U:  Angstrom = 10000 U, nm = 100000 U
UnitU(k) == IF k \in {"h5", "xtc", "trr", "gro"} THEN 100000 ELSE 10000
UnitName(k) == IF UnitU(k) = 100000 THEN "nm" ELSE "A"
\* decimals of the text coordinate field in native units (-1: binary float, no quantisation)
Pow10(n) == CASE n = 0 -> 1 [] n = 1 -> 10 [] n = 2 -> 100 [] n = 3 -> 1000 [] n = 4 -> 10000 [] n = 5 -> 100000 [] n = 6 -> 1000000 [] n = 7 -> 10000000
Decimals(k, opt, na) == CASE k \in {"mdcrd", "xyz", "lammpstrj", "pdb"} -> 3
                         [] k = "gro" -> opt                      \* save_gro(precision=opt)
                         [] k = "xtc" -> IF na <= 9 THEN -1 ELSE 3   \* <= 9 atoms are stored as raw floats, more are compressed at precision 1000 / nm
                         [] k = "rst7" -> 7
                         [] OTHER -> -1
\* quantum in U (0: none).  rst7's 1e-7 Angstrom is below U: treated as exact
Quantum(k, opt, na) == LET d == Decimals(k, opt, na) IN IF d < 0 \/ UnitU(k) \div Pow10(d) = 0 THEN 0 ELSE UnitU(k) \div Pow10(d)
StoresTime(k) == k \in {"h5", "xtc", "trr", "nc", "gro", "dtr", "rst7", "ncrst"}
\* which part of the unit cell a file holds: "frames" one cell per frame, "first" a single record per file, "lengths" rectangular lengths per frame, "none"
CellStored(k) == CASE k = "xyz" -> "none" [] k = "mdcrd" -> "lengths" [] k = "pdb" -> "first" [] OTHER -> "frames"
Numbered(k) == k \in {"rst7", "ncrst"}               \* one frame per file: <name> for one frame, <name>.<i> (zero padded) for several
NeedsCell(k) == k \in {"lammpstrj", "dtr"}           \* the writer refuses a trajectory without unit cell (allowed: nothing is lost silently)
\* fixed-width coordinate fields: printable range in quanta (text "%W.Df"); 0 = no limit that matters here
FieldWidth(k, opt) == CASE k \in {"mdcrd", "pdb"} -> 8 [] k = "rst7" -> 12 [] OTHER -> 0      \* gro/xyz/lammpstrj: separated or wide enough
\* largest / smallest value that prints in W characters with D decimals: 10^(W-D-1) - 1 quantum, and -(10^(W-D-2)) + 1 quantum
MaxQuanta(w, d) == Pow10(w - d - 1) * Pow10(d) - 1
MinQuanta(w, d) == -(Pow10(w - d - 2) * Pow10(d) - 1)

\* ---- quantisation ---------------------------------------------------------------------------------------------------
Abs(x) == IF x < 0 THEN -x ELSE x
\* float32 carrying of v through the unit conversion: a couple of ulps
Slack(v) == 2 + Abs(v) \div 2000000
FloorDiv(a, b) == IF a >= 0 THEN a \div b ELSE -((-a + b - 1) \div b)
\* native quanta a correct writer may put in the file for the value v: every n with |n*q - v| <= q/2 + slack
EncLo(v, q) == FloorDiv(2 * (v - Slack(v)) - q + 2 * q - 1, 2 * q)          \* ceil((v - slack - q/2) / q)
EncHi(v, q) == FloorDiv(2 * (v + Slack(v)) + q, 2 * q)                      \* floor((v + slack + q/2) / q)
Decode(n, q) == n * q
\* the pdb writer keeps 8 characters by dropping decimals when the value does not fit ("graceful degradation", documented):
\* number of decimals lost for value v (in quanta of 1e-3 A): 0 inside (-999.999, 9999.999), up to 3 outside
PdbLost(v) == LET a == v \div 10 IN CASE a > -999999 /\ a < 9999999 -> 0 [] a > -9999999 /\ a < 99999999 -> 1 [] OTHER -> 2
Tol(k, opt, na, v) == LET q == Quantum(k, opt, na) IN
                      IF q = 0 THEN Slack(v)
                      ELSE IF k = "pdb" /\ PdbLost(v) > 0 THEN q * Pow10(PdbLost(v)) + Slack(v)     \* truncation, not rounding
                      ELSE (q + 1) \div 2 + Slack(v)
\* must a fixed-width writer refuse v (or degrade, pdb) rather than print a field that runs into its neighbour?
Fits(k, opt, na, v) == CASE FieldWidth(k, opt) = 0 -> TRUE
                         [] k = "rst7" -> v < 100000000 - 1 /\ v > -10000000 + 1            \* %12.7f: below 1e4 A, above -1e3 A
                         [] OTHER -> LET q == UnitU(k) \div 1000 IN EncHi(v, q) <= MaxQuanta(8, 3) /\ EncLo(v, q) >= MinQuanta(8, 3)

\* ---- the pattern domain ---------------------------------------------------------------------------------------------
Patterns == {"grid", "neg", "fine", "edge", "over"}
Val(p, fr, a, x) == CASE p = "grid" -> 12300 + 100 * (13 * a + 7 * x + 31 * fr)
                      [] p = "neg"  -> -(12400 + 100 * (13 * a + 7 * x + 31 * fr))
                      [] p = "fine" -> 12345 + 1237 * a + 419 * x + 7915 * fr + (IF a = 0 THEN 5 * (x + 1) ELSE 0) + (IF a = 1 THEN 50 ELSE 0)
                      [] p = "edge" -> IF a = 0 THEN (IF x = 0 THEN 99995000 ELSE IF x = 1 THEN -9995000 ELSE 9900000) - 1000 * fr   \* 9999.5 A, -999.5 A, 990 A
                                       ELSE 500000 + 1000 * (a + x) + 700 * fr
                      [] p = "over" -> IF a = 0 THEN (IF x = 0 THEN 100005000 ELSE IF x = 1 THEN -10005000 ELSE 123456) + 1000 * fr  \* 10000.5 A, -1000.5 A
                                       ELSE 30000 + 1000 * (a + x) + 700 * fr
CellKinds == {"none", "ortho", "tric", "vary", "mixed"}     \* mixed: first frame rectangular, later frames triclinic
CellOf(c, fr) == CASE c = "none" -> <<>>
                   [] c = "ortho" -> <<310000, 320000, 330000, 90, 90, 90>>
                   [] c = "tric" -> <<310000, 320000, 330000, 80, 95, 100>>
                   [] c = "vary" -> <<310000 + 10000 * fr, 320000 + 20000 * fr, 330000, 85 + fr, 95, 100 - fr>>
                   [] c = "mixed" -> IF fr = 0 THEN <<310000, 320000, 330000, 90, 90, 90>> ELSE <<310000, 320000 + 10000 * fr, 330000, 80, 95 + fr, 100>>
TimeKinds == {"default", "offset", "nonuniform"}
TimeOf(t, fr) == CASE t = "default" -> 1000 * fr [] t = "offset" -> 2000 + 500 * fr [] t = "nonuniform" -> (IF fr = 0 THEN 250 ELSE IF fr = 1 THEN 1000 ELSE 7250 + 125 * fr)

\* ---- what a save/load pair must show ---------------------------------------------------------------------------------
\* "ok": saving and loading must succeed;  "either": saving (or loading) may fail -- the format cannot hold the input --
\* but if both succeed every expectation below holds (nothing is dropped or altered silently)
SaveOutcome(k, opt, na, nf, p, c) ==
   CASE k = "mdcrd" /\ c \in {"tric", "vary", "mixed"} -> "either"
     [] k \in {"mdcrd", "rst7"} /\ \E fr \in 0..nf-1, a \in 0..na-1, x \in 0..2 : ~Fits(k, opt, na, Val(p, fr, a, x)) -> "either"
     [] NeedsCell(k) /\ c = "none" -> "either"
     [] k = "pdb" /\ opt \div 2 = 1 /\ nf > 1 -> "either"      \* header=False drops the MODEL/ENDMDL records that delimit the frames
     [] k = "mdcrd" /\ na = 1 /\ nf > 1 /\ c = "none" -> "ambiguous"   \* a lone atom's frame line cannot be told from a box line: the format itself is ambiguous
     [] OTHER -> "ok"
CellExpect(k, c) == CASE c = "none" -> "absent"
                      [] CellStored(k) = "none" -> "absent"
                      [] CellStored(k) = "first" /\ c \in {"vary", "mixed"} -> "first"      \* a single CRYST1 record: later frames cannot be stored
                      [] OTHER -> "kept"

\* ---- coherence of the table (checked for every value of the pattern domain) ----------------------------------------
Opts(k) == IF k = "gro" THEN {1, 3, 5} ELSE IF k = "pdb" THEN {0, 1, 2, 3} ELSE {0}     \* gro: precision; pdb: bit0 = no TER, bit1 = no header
NAs == {1, 9, 10, 30}
VARIABLE st
vars == <<st>>
Init == st = [phase |-> "start"]
\* two stages so that the enumeration spreads over TLC's workers
PickFormat == /\ st.phase = "start"
              /\ \E e \in Exts, p \in Patterns : \E o \in Opts(Kind(e)) : st' = [phase |-> "pick", ext |-> e, opt |-> o, pat |-> p]
Pick == /\ st.phase = "pick"
        /\ \E na \in NAs, nf \in {1, 3}, c \in CellKinds, t \in TimeKinds :
               st' = [phase |-> "case", ext |-> st.ext, na |-> na, nf |-> nf, pat |-> st.pat, cell |-> c, time |-> t, opt |-> st.opt]
Next == PickFormat \/ Pick
Spec == Init /\ [][Next]_vars
Case == st.phase = "case"
K == Kind(st.ext)
Q == Quantum(K, st.opt, st.na)
AllVals == { Val(st.pat, fr, a, x) : fr \in 0..st.nf-1, a \in 0..st.na-1, x \in 0..2 }
\* decode o encode stays within the stated precision, for every admissible file content
RoundTrip == Case /\ Q > 0 => \A v \in AllVals : \A n \in EncLo(v, Q)..EncHi(v, Q) : Abs(Decode(n, Q) - v) <= Tol(K, st.opt, st.na, v)
NonEmpty == Case /\ Q > 0 => \A v \in AllVals : EncLo(v, Q) <= EncHi(v, Q)
Monotone == Case /\ Q > 0 => \A v, w \in AllVals : v <= w => EncLo(v, Q) <= EncHi(w, Q)
\* a value that the table says fits really prints in the field: at most W characters including sign and point
Digits(n) == CASE n < 10 -> 1 [] n < 100 -> 2 [] n < 1000 -> 3 [] n < 10000 -> 4 [] n < 100000 -> 5 [] n < 1000000 -> 6 [] n < 10000000 -> 7 [] n < 100000000 -> 8 [] OTHER -> 9
FieldFits == Case /\ FieldWidth(K, st.opt) > 0 /\ Q > 0 =>
               \A v \in AllVals : Fits(K, st.opt, st.na, v) =>
                  \A n \in EncLo(v, Q)..EncHi(v, Q) :
                     LET d == Decimals(K, st.opt, st.na)  ip == Abs(n) \div Pow10(d) IN
                     Digits(ip) + 1 + d + (IF n < 0 THEN 1 ELSE 0) <= FieldWidth(K, st.opt)
UnitsInverse == Case => UnitU(K) \in {10000, 100000} /\ (UnitName(K) = "A") = (UnitU(K) * 10 = 100000)

\* ---- emission of replay cases ---------------------------------------------------------------------------------------
CaseRecord(s) ==
   LET k == Kind(s.ext)  q == Quantum(k, s.opt, s.na) IN
   [ext |-> s.ext, kind |-> k, na |-> s.na, nf |-> s.nf, pat |-> s.pat, cellkind |-> s.cell, timekind |-> s.time, opt |-> s.opt,
    unit |-> UnitName(k), unitU |-> UnitU(k), q |-> q,
    xyz |-> [fr \in 1..s.nf |-> [a \in 1..s.na |-> [x \in 1..3 |-> Val(s.pat, fr-1, a-1, x-1)]]],
    lo |-> [fr \in 1..s.nf |-> [a \in 1..s.na |-> [x \in 1..3 |-> IF q = 0 THEN 0 ELSE EncLo(Val(s.pat, fr-1, a-1, x-1), q)]]],
    hi |-> [fr \in 1..s.nf |-> [a \in 1..s.na |-> [x \in 1..3 |-> IF q = 0 THEN 0 ELSE EncHi(Val(s.pat, fr-1, a-1, x-1), q)]]],
    tol |-> [fr \in 1..s.nf |-> [a \in 1..s.na |-> [x \in 1..3 |-> Tol(k, s.opt, s.na, Val(s.pat, fr-1, a-1, x-1))]]],
    cells |-> [fr \in 1..s.nf |-> CellOf(s.cell, fr-1)], times |-> [fr \in 1..s.nf |-> TimeOf(s.time, fr-1)],
    exact_quanta |-> (q > 0 /\ ~(k = "pdb" /\ \E fr \in 0..s.nf-1, a \in 0..s.na-1, x \in 0..2 : PdbLost(Val(s.pat, fr, a, x)) > 0)),
    save |-> SaveOutcome(k, s.opt, s.na, s.nf, s.pat, s.cell), time_kept |-> StoresTime(k), cell |-> CellExpect(k, s.cell),
    numbered |-> Numbered(k) /\ s.nf > 1]
Emit == st'.phase = "case" => PrintT(<<"TR", ToJson(CaseRecord(st'))>>)
=======================================================================
