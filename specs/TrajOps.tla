---------------------------- MODULE TrajOps ----------------------------
(* Property C03: Trajectory objects as token matrices with a hidden RMSD-trace cache.
   A coordinate token is [f, a, v]: source frame, source atom and a structural version v recording the
   in-place transforms applied to it (content-addressed: <<>> raw data, <<"c", row>> after centring the
   row `row`, <<"s", row, ref, cols>> after superposing `row` on `ref` over the atom positions `cols`), so
   equal content <=> equal token along every path.  `tr` is the cached per-frame trace: tr.v[i] is the row
   the i-th cached value was computed from.  `sh` is the set of <<x, y, field>>: y MAY share the memory of
   `field` with x (only slice(copy=False) and stack create such pairs).
   FixSlice / FixAtomSliceInplace are design switches: TRUE is the intended design (the property holds),
   FALSE is what Trajectory.slice / atom_slice(inplace=True) did in the pinned tree (CacheSound fails). *)
EXTENDS Integers, Sequences, FiniteSets, TLC, Json
CONSTANTS F, A, Obj, D, FixSlice, FixAtomSliceInplace
VARIABLES o,      \* [Obj -> Null or trajectory record]
          sh,     \* set of <<x, y, field>>
          hist
vars == <<o, sh, hist>>
Null == [null |-> TRUE]
NoTr == [has |-> FALSE, v |-> <<>>]
Live(x) == "xyz" \in DOMAIN o[x]
Raw(f, a) == [f |-> f, a |-> a, v |-> <<>>]
BaseObj == [xyz |-> [i \in 1..F |-> [j \in 1..A |-> Raw(i, j)]], time |-> [i \in 1..F |-> i],
            cell |-> [has |-> TRUE, v |-> [i \in 1..F |-> i]], tr |-> NoTr]
NRows(t) == Len(t.xyz)
NCols(t) == IF Len(t.xyz) = 0 THEN 0 ELSE Len(t.xyz[1])
Sel(s, idx) == [k \in 1..Len(idx) |-> s[idx[k]]]
\* index keys as sequences of row positions: every arithmetic progression (all slices, both directions; a single
\* element is what an int / negative int key denotes), plus index arrays with repeats / out of order and masks
Slices(n) == { [k \in 1..m |-> st + (k-1)*step] : st \in 1..n, step \in {-2,-1,1,2}, m \in 1..n }
Keys(n) == { s \in Slices(n) : \A k \in 1..Len(s) : s[k] \in 1..n }
Fancy(n) == IF n >= 2 THEN { <<2,1>>, <<1,1>>, <<n,1,n>> } ELSE { <<1,1>> }
ColSets(n) == { s \in Keys(n) : \A k \in 1..(Len(s)-1) : s[k] < s[k+1] }   \* strictly increasing atom subsets
IndexCell(c, idx) == [has |-> c.has, v |-> IF c.has THEN Sel(c.v, idx) ELSE <<>>]
Index(t, idx, fix) == [xyz |-> Sel(t.xyz, idx), time |-> Sel(t.time, idx), cell |-> IndexCell(t.cell, idx),
                       tr |-> IF ~t.tr.has THEN NoTr ELSE IF fix THEN [has |-> TRUE, v |-> Sel(t.tr.v, idx)] ELSE t.tr]
AtomSel(t, cs) == [i \in 1..NRows(t) |-> Sel(t.xyz[i], cs)]
Centre(row) == [j \in 1..Len(row) |-> [f |-> row[j].f, a |-> row[j].a, v |-> <<"c", row>>]]
CentreMW(row) == [j \in 1..Len(row) |-> [f |-> row[j].f, a |-> row[j].a, v |-> <<"cm", row>>]]
Superposed(row, ref, cs) == [j \in 1..Len(row) |-> [f |-> row[j].f, a |-> row[j].a, v |-> <<"s", row, ref, cs>>]]
Log(rec) == hist' = Append(hist, rec)
Put(dst, val) == o' = [o EXCEPT ![dst] = val]
Fresh(dst) == { p \in sh : p[1] # dst /\ p[2] # dst }
\* everything that may share memory with x (sharing is symmetric and propagates to views of views), seen after dst is overwritten
SharersOf(x, dst) == {x} \cup { z \in Obj \ {dst} : \E p \in Fresh(dst) : (p[1] = x /\ p[2] = z) \/ (p[2] = x /\ p[1] = z) }
Aliased(x) == \E p \in sh : (p[1] = x \/ p[2] = x)
Init == o = [x \in Obj |-> IF x = 1 THEN BaseObj ELSE Null] /\ sh = {} /\ hist = <<>>
\* --- t[key], t.slice(key) ---------------------------------------------------------------------
OpIndex(src, dst, idx, kind) == /\ Live(src) /\ dst # src
    /\ Put(dst, Index(o[src], idx, FixSlice)) /\ sh' = Fresh(dst)
    /\ Log([op |-> "index", x |-> src, y |-> 0, dst |-> dst, idx |-> idx, kind |-> kind])
\* t.slice(key, copy=False): the result may share every array with its source (basic slices are numpy views)
OpSliceNoCopy(src, dst, idx) == /\ Live(src) /\ dst # src
    /\ Put(dst, Index(o[src], idx, FixSlice))
    /\ sh' = Fresh(dst) \cup { <<z, dst, fld>> : z \in SharersOf(src, dst), fld \in {"xyz", "time", "cell", "tr"} }
    /\ Log([op |-> "slice_nocopy", x |-> src, y |-> 0, dst |-> dst, idx |-> idx, kind |-> "slice"])
\* x.join(y), x + y, md.join([x, y])
AtomIds(t) == IF NRows(t) = 0 THEN <<>> ELSE [j \in 1..NCols(t) |-> t.xyz[1][j].a]
OpJoin(x, y, dst, how) == /\ Live(x) /\ Live(y) /\ dst # x /\ dst # y
    /\ NCols(o[x]) = NCols(o[y]) /\ o[x].cell.has = o[y].cell.has
    /\ AtomIds(o[x]) = AtomIds(o[y])          \* join refuses different topologies
    /\ NRows(o[x]) + NRows(o[y]) <= F + 2
    /\ Put(dst, [xyz |-> o[x].xyz \o o[y].xyz, time |-> o[x].time \o o[y].time,
                 cell |-> [has |-> o[x].cell.has, v |-> o[x].cell.v \o o[y].cell.v], tr |-> NoTr])
    /\ sh' = Fresh(dst) /\ Log([op |-> how, x |-> x, y |-> y, dst |-> dst, idx |-> <<>>, kind |-> ""])
\* x.join(y, discard_overlapping_frames=True): the LAST frame of x is dropped when it has the coordinates of the first frame of y.
\* The cache of the result, if an implementation keeps one, describes the rows that remain (CacheSound speaks about `tr` whatever the
\* path).  The replay exercises the option through the identity below: x joined with (last frame of x, then y) is x joined with y.
JoinRec(a, b) == [xyz |-> a.xyz \o b.xyz, time |-> a.time \o b.time, cell |-> [has |-> a.cell.has, v |-> a.cell.v \o b.cell.v], tr |-> NoTr]
FrontRec(a) == Index(a, [k \in 1..(NRows(a) - 1) |-> k], TRUE)
LastRec(a) == Index(a, <<NRows(a)>>, TRUE)
JoinDiscardRec(a, b) == IF NRows(a) > 0 /\ NRows(b) > 0 /\ a.xyz[NRows(a)] = b.xyz[1] THEN JoinRec(FrontRec(a), b) ELSE JoinRec(a, b)
DiscardIdentity == \A x, y \in Obj : (Live(x) /\ Live(y) /\ NRows(o[x]) > 0 /\ NCols(o[x]) = NCols(o[y]) /\ o[x].cell.has = o[y].cell.has)
                       => JoinDiscardRec(o[x], JoinRec(LastRec(o[x]), o[y])) = JoinRec(o[x], o[y])
\* x.stack(y): atoms side by side; time and cell are those of x and may be x's own arrays
OpStack(x, y, dst) == /\ Live(x) /\ Live(y) /\ dst # x /\ dst # y
    /\ NRows(o[x]) = NRows(o[y]) /\ NCols(o[x]) + NCols(o[y]) <= 2 * A
    /\ Put(dst, [xyz |-> [i \in 1..NRows(o[x]) |-> o[x].xyz[i] \o o[y].xyz[i]], time |-> o[x].time,
                 cell |-> o[x].cell, tr |-> NoTr])
    /\ sh' = Fresh(dst) \cup { <<z, dst, fld>> : z \in SharersOf(x, dst), fld \in {"time", "cell"} }
    /\ Log([op |-> "stack", x |-> x, y |-> y, dst |-> dst, idx |-> <<>>, kind |-> ""])
OpAtomSlice(src, dst, cs) == /\ Live(src) /\ dst # src
    /\ Put(dst, [o[src] EXCEPT !.xyz = AtomSel(o[src], cs), !.tr = NoTr]) /\ sh' = Fresh(dst)
    /\ Log([op |-> "atom_slice", x |-> src, y |-> 0, dst |-> dst, idx |-> cs, kind |-> "copy"])
OpAtomSliceInplace(src, cs) == /\ Live(src) /\ ~Aliased(src)
    /\ o' = [o EXCEPT ![src].xyz = AtomSel(o[src], cs),
                      ![src].tr = IF FixAtomSliceInplace THEN NoTr ELSE o[src].tr]
    /\ UNCHANGED sh /\ Log([op |-> "atom_slice", x |-> src, y |-> 0, dst |-> src, idx |-> cs, kind |-> "inplace"])
OpCentre(x) == /\ Live(x) /\ ~Aliased(x)
    /\ LET new == [i \in 1..NRows(o[x]) |-> Centre(o[x].xyz[i])] IN
         o' = [o EXCEPT ![x].xyz = new, ![x].tr = [has |-> TRUE, v |-> new]]
    /\ UNCHANGED sh /\ Log([op |-> "center", x |-> x, y |-> 0, dst |-> x, idx |-> <<>>, kind |-> ""])
\* center_coordinates(mass_weighted=True): the centre of MASS goes to the origin; the frames are then not geometrically centred,
\* so no cache may survive
OpCentreMW(x) == /\ Live(x) /\ ~Aliased(x)
    /\ o' = [o EXCEPT ![x].xyz = [i \in 1..NRows(o[x]) |-> CentreMW(o[x].xyz[i])], ![x].tr = NoTr]
    /\ UNCHANGED sh /\ Log([op |-> "center_mw", x |-> x, y |-> 0, dst |-> x, idx |-> <<>>, kind |-> ""])
\* x.superpose(ref, frame, atom_indices=cols): every frame of x is moved rigidly; the cache no longer applies
OpSuperpose(x, ref, fr, cs) == /\ Live(x) /\ Live(ref) /\ ~Aliased(x) /\ fr \in 1..NRows(o[ref])
    /\ NCols(o[x]) = NCols(o[ref])
    /\ LET refrow == o[ref].xyz[fr]
           new == [i \in 1..NRows(o[x]) |-> Superposed(o[x].xyz[i], refrow, cs)] IN
         o' = [o EXCEPT ![x].xyz = new, ![x].tr = NoTr]
    /\ UNCHANGED sh /\ Log([op |-> "superpose", x |-> x, y |-> ref, dst |-> fr, idx |-> cs, kind |-> ""])
\* assignments: t.xyz = new data (same shape), t.time = ..., t.unitcell_lengths/angles = None or new values
OpAssignXyz(x) == /\ Live(x) /\ ~Aliased(x)
    /\ o' = [o EXCEPT ![x].xyz = [i \in 1..NRows(o[x]) |-> [j \in 1..NCols(o[x]) |-> Raw(i + 10, j)]], ![x].tr = NoTr]
    /\ UNCHANGED sh /\ Log([op |-> "assign_xyz", x |-> x, y |-> 0, dst |-> x, idx |-> <<>>, kind |-> ""])
OpAssignTime(x) == /\ Live(x) /\ ~Aliased(x)
    /\ o' = [o EXCEPT ![x].time = [i \in 1..NRows(o[x]) |-> i + 10]]
    /\ UNCHANGED sh /\ Log([op |-> "assign_time", x |-> x, y |-> 0, dst |-> x, idx |-> <<>>, kind |-> ""])
OpAssignCell(x, none) == /\ Live(x) /\ ~Aliased(x)
    /\ o' = [o EXCEPT ![x].cell = IF none THEN [has |-> FALSE, v |-> <<>>] ELSE [has |-> TRUE, v |-> [i \in 1..NRows(o[x]) |-> i + 10]]]
    /\ UNCHANGED sh /\ Log([op |-> "assign_cell", x |-> x, y |-> 0, dst |-> x, idx |-> <<>>, kind |-> IF none THEN "none" ELSE "values"])
Next == \/ \E src \in Obj, dst \in Obj : Live(src) /\
              ( \/ \E idx \in Keys(NRows(o[src])) : OpIndex(src, dst, idx, "slice")
                \/ \E idx \in Fancy(NRows(o[src])) : OpIndex(src, dst, idx, "fancy")
                \/ \E idx \in Keys(NRows(o[src])) : OpSliceNoCopy(src, dst, idx)
                \/ \E cs \in ColSets(NCols(o[src])) : OpAtomSlice(src, dst, cs) )
        \/ \E x \in Obj, y \in Obj, dst \in Obj : \E how \in {"join", "md_join"} : OpJoin(x, y, dst, how)
        \/ \E x \in Obj, y \in Obj, dst \in Obj : OpStack(x, y, dst)
        \/ \E src \in Obj : Live(src) /\ \E cs \in ColSets(NCols(o[src])) : Len(cs) < NCols(o[src]) /\ OpAtomSliceInplace(src, cs)
        \/ \E x \in Obj : OpCentre(x) \/ OpCentreMW(x)
        \/ \E x \in Obj, ref \in Obj : Live(x) /\ Live(ref) /\ \E fr \in {1, NRows(o[ref])} :
               \E cs \in {[j \in 1..NCols(o[x]) |-> j], <<1>>} : OpSuperpose(x, ref, fr, cs)
        \/ \E x \in Obj : OpAssignXyz(x) \/ OpAssignTime(x) \/ \E none \in BOOLEAN : OpAssignCell(x, none)
Spec == Init /\ [][Next]_vars
\* ---- properties ----------------------------------------------------------------------------
\* a cache, when present, describes exactly the current coordinates: rmsd(precentered=True) is then rmsd from scratch
CacheSound == \A x \in Obj : (Live(x) /\ o[x].tr.has) =>
                 /\ Len(o[x].tr.v) = NRows(o[x])
                 /\ \A i \in 1..NRows(o[x]) : o[x].tr.v[i] = o[x].xyz[i]
FieldLengths == \A x \in Obj : Live(x) => /\ Len(o[x].time) = NRows(o[x])
                                          /\ (o[x].cell.has => Len(o[x].cell.v) = NRows(o[x]))
                                          /\ \A i \in 1..NRows(o[x]) : Len(o[x].xyz[i]) = NCols(o[x])
\* coordinates are shared only through slice(copy=False); nothing else is shared except stack's time/cell
NoSharedXyz == \A p \in sh : p[3] = "xyz" => \E i \in 1..Len(hist) : hist[i].op = "slice_nocopy" /\ hist[i].dst \in {p[1], p[2]}
Independent == [][(hist' # hist /\ hist'[Len(hist')].op \in {"index", "join", "md_join", "atom_slice"})
                     => \A p \in sh' : p[2] # hist'[Len(hist')].dst \/ hist'[Len(hist')].kind = "inplace"]_vars
View == <<o, sh>>
Emit == Len(hist) < D /\ PrintT(<<"TR", ToJson([hist |-> hist', post |-> [x \in Obj |->
             IF "xyz" \in DOMAIN o'[x] THEN [live |-> TRUE, nr |-> NRows(o'[x]), nc |-> NCols(o'[x]), cell |-> o'[x].cell.has, tr |-> o'[x].tr.has]
             ELSE [live |-> FALSE, nr |-> 0, nc |-> 0, cell |-> FALSE, tr |-> FALSE]], sh |-> sh'])>>)
EmitLast == Len(hist) < D /\ (Len(hist') = D => PrintT(<<"TR", ToJson([hist |-> hist', post |-> <<>>, sh |-> sh'])>>))
=======================================================================
