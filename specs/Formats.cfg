SPECIFICATION Spec
INVARIANT RoundTrip
INVARIANT NonEmpty
INVARIANT Monotone
INVARIANT FieldFits
INVARIANT UnitsInverse
ACTION_CONSTRAINT Emit
CHECK_DEADLOCK FALSE
