---------------------------- MODULE Convert ----------------------------
(* mdconvert: chunked conversion of one or several input trajectories into one output file (a composition of the reader of C02/C18
   and the streaming writer of C19, outside the listed properties).  The loop of mdtraj/scripts/mdconvert.py is modelled step by
   step: per input file a cursor; read(chunk, stride) returns up to `chunk` frames, every stride-th one starting at the cursor,
   and leaves the cursor behind the last frame it looked at; each non-empty batch is appended to the output; an empty batch ends
   the file.  With -i (index) the whole file is read at once and sliced.  Frames are identified by (file, position).
   Invariants: the output is always a prefix of the expected selection; at the end it equals it, whatever the chunk size. *)
EXTENDS Integers, Sequences, TLC, Json
CONSTANTS MaxN, MaxChunk, MaxStride
VARIABLES cfg, fileNo, cursor, out, done, ph
vars == <<cfg, fileNo, cursor, out, done, ph>>
Frames(n, f) == [i \in 1..n |-> <<f, i - 1>>]
\* frames start, start+s, ... below n, at most c of them
Batch(n, start, c, s) == LET RECURSIVE B(_, _) B(p, k) == IF k = 0 \/ p >= n THEN <<>> ELSE <<p>> \o B(p + s, k - 1) IN B(start, c)
Strided(n, s) == Batch(n, 0, n + 1, s)
Slices == {"all", "first", "last", "tail", "head", "even", "reverse"}
Apply(sl, n) == CASE sl = "all" -> [i \in 1..n |-> i - 1] [] sl = "first" -> <<0>> [] sl = "last" -> <<n - 1>>
                  [] sl = "tail" -> [i \in 1..(n - 1) |-> i] [] sl = "head" -> [i \in 1..(n - 1) |-> i - 1]
                  [] sl = "even" -> Strided(n, 2) [] sl = "reverse" -> [i \in 1..n |-> n - i]
Tag(f, seq) == [i \in 1..Len(seq) |-> <<f, seq[i]>>]
Expected(c) == IF c.index # "none" THEN Tag(1, Apply(c.index, c.ns[1]))
               ELSE LET RECURSIVE E(_) E(f) == IF f > Len(c.ns) THEN <<>> ELSE Tag(f, Strided(c.ns[f], c.stride)) \o E(f + 1) IN E(1)
Init == ph = "pick" /\ cfg = [ns |-> <<1>>, chunk |-> 1, stride |-> 1, index |-> "none"] /\ fileNo = 1 /\ cursor = 0 /\ out = <<>> /\ done = FALSE
Pick == /\ ph = "pick" /\ ph' = "run"
        /\ \E n1 \in 1..MaxN, n2 \in 0..MaxN, c \in 1..MaxChunk, s \in 1..MaxStride, ix \in Slices \cup {"none"} :
              /\ c % s = 0                                        \* "--stride must be a divisor of --chunk"
              /\ (ix # "none" => n2 = 0 /\ s = 1 /\ c = 1)         \* index: single input, no stride; the chunk is ignored
              /\ cfg' = [ns |-> IF n2 = 0 THEN <<n1>> ELSE <<n1, n2>>, chunk |-> c, stride |-> s, index |-> ix]
        /\ UNCHANGED <<fileNo, cursor, out, done>>
\* one iteration of the while-loop on the current input file
Step == /\ ph = "run" /\ ~done
        /\ LET n == cfg.ns[fileNo]
               b == IF cfg.index # "none" THEN (IF cursor = 0 THEN Apply(cfg.index, n) ELSE <<>>)
                    ELSE Batch(n, cursor, cfg.chunk, cfg.stride) IN
           IF (cfg.index = "none" /\ b = <<>>) \/ (cfg.index # "none" /\ cursor > 0)
           THEN /\ (IF fileNo < Len(cfg.ns) THEN fileNo' = fileNo + 1 /\ cursor' = 0 /\ done' = FALSE ELSE done' = TRUE /\ UNCHANGED <<fileNo, cursor>>)
                /\ UNCHANGED out
           ELSE /\ out' = out \o Tag(fileNo, b)
                /\ cursor' = IF cfg.index # "none" THEN n ELSE b[Len(b)] + cfg.stride
                /\ UNCHANGED <<fileNo, done>>
        /\ UNCHANGED <<cfg, ph>>
Next == Pick \/ Step
Spec == Init /\ [][Next]_vars
IsPrefix(a, b) == Len(a) <= Len(b) /\ \A i \in 1..Len(a) : a[i] = b[i]
PrefixAlways == ph = "run" => IsPrefix(out, Expected(cfg))
CompleteAtEnd == done => out = Expected(cfg)
\* chunking is invisible: the result does not depend on the chunk size (stated through Expected, which does not mention it)
Emit == (ph = "pick" /\ ph' = "run") => PrintT(<<"TR", ToJson([ns |-> cfg'.ns, chunk |-> cfg'.chunk, stride |-> cfg'.stride, index |-> cfg'.index,
                                                              expect |-> Expected(cfg')])>>)
=======================================================================
