---------------------------- MODULE Symmetry ----------------------------
(* Property C09: observables are invariant under rigid motion and lattice translation.
   State: a lattice configuration of NAt atoms (IntVec) and, in the periodic mode, a cell.
   Actions (non-periodic): Rotate by any of the 24 proper rotations of the cube, Translate all atoms by an integer vector.
   Actions (periodic): ShiftAtom -- move ONE atom by an integer combination of the cell vectors; TranslateAll.
   Observables are the exact functions of the other modules: all pair distances (plain or minimum-image), all angle and
   dihedral fingerprints, neighbour sets, N*sum|x|^2 - |sum x|^2 (= N^2 Rg^2), the invariants of the scatter (gyration) tensor,
   and the Baker-Hubbard predicate on every triplet.  The property is the action property  [][Obs' = Obs]_vars. *)
EXTENDS IntVec, TLC, Json
CONSTANTS Periodic, NAt, MaxSteps
Perms3 == { p \in [1..3 -> 1..3] : \A i, j \in 1..3 : i # j => p[i] # p[j] }
Det3m(m) == m[1][1]*(m[2][2]*m[3][3]-m[2][3]*m[3][2]) - m[1][2]*(m[2][1]*m[3][3]-m[2][3]*m[3][1]) + m[1][3]*(m[2][1]*m[3][2]-m[2][2]*m[3][1])
Rot24 == { r \in [p : Perms3, s : [1..3 -> {-1, 1}]] :
             Det3m([i \in 1..3 |-> [j \in 1..3 |-> IF r.p[i] = j THEN r.s[i] ELSE 0]]) = 1 }
ApplyR(r, v) == <<r.s[1] * v[r.p[1]], r.s[2] * v[r.p[2]], r.s[3] * v[r.p[3]]>>
Cells == { << <<9,0,0>>, <<0,10,0>>, <<0,0,11>> >>, << <<10,0,0>>, <<-3,10,0>>, <<-3,-4,9>> >> }
Starts == { << <<0,0,0>>, <<2,1,0>>, <<1,3,1>>, <<-1,1,2>> >>, << <<0,0,0>>, <<3,0,0>>, <<0,3,0>>, <<1,1,3>> >>, << <<1,1,1>>, <<-2,0,1>>, <<0,-2,-1>>, <<2,2,0>> >>,
            \* degenerate shapes: exactly planar (all z equal) and exactly linear along a coordinate axis -- a bounding box of zero thickness
            << <<0,0,0>>, <<2,1,0>>, <<1,3,0>>, <<-1,1,0>> >>, << <<0,0,0>>, <<1,0,0>>, <<3,0,0>>, <<4,0,0>> >> }
VARIABLES pos, cell, ph, last
vars == <<pos, cell, ph, last>>
Init == pos = <<>> /\ cell = << <<1,0,0>>, <<0,1,0>>, <<0,0,1>> >> /\ ph = 0 /\ last = [op |-> "init", a |-> 0, v |-> <<0,0,0>>, r |-> <<1,2,3,1,1,1>>]
Setup == ph = 0 /\ ph' = 1 /\ pos' \in { [i \in 1..NAt |-> s[i]] : s \in Starts } /\ cell' \in (IF Periodic THEN Cells ELSE {cell}) /\ UNCHANGED last
\* ---- observables -----------------------------------------------------------------------------
D2(i, j, P, C) == IF Periodic THEN TrueMin2(Sub(P[i], P[j]), C) ELSE N2(Sub(P[i], P[j]))
\* bond vector: minimum image (unique inside the comparable range) or plain difference
BV(i, j, P, C) == IF Periodic THEN CHOOSE v \in AlgoVec(Sub(P[j], P[i]), C) : TRUE ELSE Sub(P[j], P[i])
AngFp(u, v) == <<Sgn(Dot(u, v)), Dot(u, v) * Dot(u, v), N2(u) * N2(v)>>
TorFp(b1, b2, b3) == LET c1 == Cross(b2, b3)  c2 == Cross(b1, b2)  q == Dot(c1, c2) IN <<Sgn(Dot(b1, c1)), Sgn(q), q * q, N2(c1) * N2(c2)>>
SumV(P) == LET S[i \in 0..Len(P)] == IF i = 0 THEN <<0,0,0>> ELSE Add(S[i-1], P[i]) IN S[Len(P)]
SumN2(P) == LET S[i \in 0..Len(P)] == IF i = 0 THEN 0 ELSE S[i-1] + N2(P[i]) IN S[Len(P)]
Rg2N2(P) == Len(P) * SumN2(P) - N2(SumV(P))                       \* = N^2 * Rg^2
\* scatter matrix about the centroid, times N (integers): T_ab = N sum x_a x_b - (sum x_a)(sum x_b); its rotation invariants
Scat(P) == LET n == Len(P)  s == SumV(P)
               m(a, b) == LET S[i \in 0..n] == IF i = 0 THEN 0 ELSE S[i-1] + P[i][a] * P[i][b] IN S[n] IN
           [a \in 1..3 |-> [b \in 1..3 |-> n * m(a, b) - s[a] * s[b]]]
TensorInv(P) == LET t == Scat(P) IN <<t[1][1] + t[2][2] + t[3][3],
                   t[1][1]*t[2][2] - t[1][2]*t[2][1] + t[1][1]*t[3][3] - t[1][3]*t[3][1] + t[2][2]*t[3][3] - t[2][3]*t[3][2], Det3m(t)>>
Obs(P, C) == [d2 |-> [i \in 1..NAt |-> [j \in 1..NAt |-> D2(i, j, P, C)]],
              ang |-> [i \in 1..NAt |-> [j \in 1..NAt |-> [k \in 1..NAt |-> IF i # j /\ j # k /\ i # k THEN AngFp(BV(j, i, P, C), BV(j, k, P, C)) ELSE <<0,0,0>>]]],
              tor |-> IF NAt >= 4 THEN TorFp(BV(1, 2, P, C), BV(2, 3, P, C), BV(3, 4, P, C)) ELSE <<0,0,0,0>>,
              nbr |-> [i \in 1..NAt |-> { j \in 1..NAt : j # i /\ 4 * D2(i, j, P, C) < 49 }],
              rg |-> IF Periodic THEN 0 ELSE Rg2N2(P),
              tens |-> IF Periodic THEN <<0,0,0>> ELSE TensorInv(P)]
\* ---- actions ---------------------------------------------------------------------------------
Rotate == /\ ~Periodic /\ ph \in 1..MaxSteps /\ ph' = ph + 1 /\ \E r \in Rot24 : pos' = [i \in 1..NAt |-> ApplyR(r, pos[i])] /\ last' = [op |-> "rotate", a |-> 0, v |-> <<0,0,0>>, r |-> <<r.p[1], r.p[2], r.p[3], r.s[1], r.s[2], r.s[3]>>]
          /\ UNCHANGED cell
Translate == /\ ph \in 1..MaxSteps /\ ph' = ph + 1 /\ \E t \in { <<7,-3,2>>, <<-40,25,13>>, <<1,0,0>> } : pos' = [i \in 1..NAt |-> Add(pos[i], t)] /\ last' = [op |-> "translate", a |-> 0, v |-> t, r |-> <<1,2,3,1,1,1>>]
             /\ UNCHANGED cell
ShiftAtom == /\ Periodic /\ ph \in 1..MaxSteps /\ ph' = ph + 1 /\ \E a \in 1..NAt, i \in -1..1, j \in -1..1, k \in {-2, 0, 1} : <<i, j, k>> # <<0,0,0>> /\
                  pos' = [pos EXCEPT ![a] = Add(@, Lattice(cell, i, j, k))] /\ last' = [op |-> "shift_atom", a |-> a, v |-> <<i, j, k>>, r |-> <<1,2,3,1,1,1>>]
             /\ UNCHANGED cell
Next == Setup \/ Rotate \/ Translate \/ ShiftAtom
Spec == Init /\ [][Next]_vars
\* the property: no action changes any observable
Invariant == [][ph >= 1 => Obs(pos', cell') = Obs(pos, cell)]_vars
View == <<pos, cell, ph>>
\* exploration bound: configurations whose coordinates stay small (rotations and translations compose freely)
Depth == \A i \in 1..Len(pos) : \A k \in 1..3 : pos[i][k] \in -60..60
\* the neighbour relation of the start configuration is emitted as well: the implementation's lists must BE it, not merely stay the same
Emit == ph >= 1 => PrintT(<<"TR", ToJson([step |-> last', start |-> pos, cell |-> cell,
                                          nbr |-> [i \in 1..NAt |-> [j \in 1..NAt |-> j # i /\ 4 * D2(i, j, pos, cell) < 49]],
                                          tordef |-> Obs(pos, cell).tor[4] # 0])>>)       \* FALSE: three collinear atoms, the torsion is undefined
=======================================================================
