---------------------------- MODULE UnitCell ----------------------------
(* Property C17: the unit cell of a trajectory.
   A trajectory stores per-frame lengths and per-frame angles separately (either may be missing: a half-set
   cell), box vectors are derived and exist only when both are present.  A frame's lengths are integers in
   units of 1/6 nm, its angles are given by 6*cos(alpha), 6*cos(beta), 6*cos(gamma) (integers for the
   catalogue: 0, +-1/2, -1/3 ...), so the Gram matrix G = V V^T -- which is what "describe the same cell"
   means independently of the orientation of the vector description -- is exact:
   G[a,b] = la*lb*cg/6, G[b,c] = lb*lc*ca/6, G[c,a] = lc*la*cb/6  (alpha is between b and c, beta between
   c and a, gamma between a and b). *)
EXTENDS Integers, Sequences, FiniteSets, TLC, Json
CONSTANTS NF, D
LenSeq == << <<6,6,6>>, <<6,9,12>>, <<12,6,9>> >>
LenCat == 1..Len(LenSeq)
\* 6*cos of (alpha, beta, gamma): orthogonal; hexagonal 120 / 60; monoclinic beta = 120; truncated octahedron
\* (all 109.47); three different angles 60/90/120 in two assignments (a name swap is visible); near-degenerate
CosSeq == << <<0,0,0>>, <<0,0,-3>>, <<0,0,3>>, <<0,-3,0>>, <<-2,-2,-2>>, <<3,0,-3>>, <<0,-3,3>>, <<3,3,-2>> >>
CosCat == 1..Len(CosSeq)
\* volume^2 * 216 / (la lb lc)^2 = 216 + 2 ca cb cg - 6 (ca^2 + cb^2 + cg^2)  must be positive
Valid(c) == 216 + 2*c[1]*c[2]*c[3] - 6*(c[1]*c[1] + c[2]*c[2] + c[3]*c[3]) > 0
VARIABLES L, A, n, hist        \* L, A: [has |-> BOOLEAN, v |-> Seq of triples]; n = number of frames
vars == <<L, A, n, hist>>
None == [has |-> FALSE, v |-> <<>>]
Some(v) == [has |-> TRUE, v |-> v]
Log(op, arg) == hist' = Append(hist, [op |-> op, arg |-> arg])
HaveCell == L.has /\ A.has
Init == n = NF /\ L = None /\ A = None /\ hist = <<>>
\* per-frame varying cells: frame i gets catalogue entries chosen independently for the first two frames
\* (uniform over the frames, or alternating with the next catalogue entry)
Cells(Sq) == { [i \in 1..n |-> Sq[k]] : k \in 1..Len(Sq) } \cup
             { [i \in 1..n |-> IF i % 2 = 1 THEN Sq[k] ELSE Sq[(k % Len(Sq)) + 1]] : k \in 1..Len(Sq) }
\* t.unitcell_vectors = V for ANY rotated description V of the cells (the specification only sees lengths and cosines)
SetVectors == \E ls \in Cells(LenSeq), cs \in Cells(CosSeq) :
      /\ L' = Some(ls) /\ A' = Some(cs) /\ UNCHANGED n /\ Log("set_vectors", <<ls, cs>>)
\* None, or an all-zero array: no cell
SetVectorsNone == \E how \in {"none", "zeros"} : L' = None /\ A' = None /\ UNCHANGED n /\ Log("set_vectors_" \o how, <<>>)
SetLengthsNone == L' = None /\ UNCHANGED <<A, n>> /\ Log("set_lengths_none", <<>>)
SetAnglesNone == A' = None /\ UNCHANGED <<L, n>> /\ Log("set_angles_none", <<>>)
SetLengths == \E ls \in Cells(LenSeq) : L' = Some(ls) /\ UNCHANGED <<A, n>> /\ Log("set_lengths", <<ls>>)
SetAngles == \E cs \in Cells(CosSeq) : A' = Some(cs) /\ UNCHANGED <<L, n>> /\ Log("set_angles", <<cs>>)
Sel(s, idx) == [k \in 1..Len(idx) |-> s[idx[k]]]
\* t[key]: lengths and angles are indexed with the same key, each kept iff it was there
Index == \E idx \in { <<1>>, <<n>>, [k \in 1..n |-> n + 1 - k] } :
      /\ L' = (IF L.has THEN Some(Sel(L.v, idx)) ELSE None) /\ A' = (IF A.has THEN Some(Sel(A.v, idx)) ELSE None)
      /\ n' = Len(idx) /\ Log("index", idx)
\* t.join(t): complete cells are concatenated; an incomplete cell is not carried over
JoinSelf == /\ 2*n <= 2*NF
            /\ L' = (IF HaveCell THEN Some(L.v \o L.v) ELSE None) /\ A' = (IF HaveCell THEN Some(A.v \o A.v) ELSE None)
            /\ n' = 2*n /\ Log("join_self", <<>>)
\* stack / atom_slice / save+load keep the frames and a complete cell.  What becomes of a half-set cell is not
\* constrained by the property (the result only must not be complete); the specification follows the code:
\* stack and atom_slice(inplace=True) hand both halves on as they are, atom_slice (copy) drops an incomplete cell,
\* saving refuses it.
Keep(op) == /\ op = "save_load" => (HaveCell \/ (~L.has /\ ~A.has))
            /\ IF op = "atom_slice" /\ ~HaveCell THEN L' = None /\ A' = None ELSE UNCHANGED <<L, A>>
            /\ UNCHANGED n /\ Log(op, <<>>)
Next == Len(hist) < D /\ ( SetVectors \/ SetVectorsNone \/ SetLengthsNone \/ SetAnglesNone \/ SetLengths \/ SetAngles
                           \/ Index \/ JoinSelf \/ \E op \in {"stack_self", "atom_slice", "atom_slice_inplace", "save_load"} : Keep(op) )
Spec == Init /\ [][Next]_vars
\* ---- properties -----------------------------------------------------------------------
FieldLen == (L.has => Len(L.v) = n) /\ (A.has => Len(A.v) = n)
AllValid == \A k \in CosCat : Valid(CosSeq[k])
Last == hist[Len(hist)]
NoHalfSetAfterVectors == (hist # <<>> /\ Last.op \in {"set_vectors", "set_vectors_none", "set_vectors_zeros"}) => (L.has <=> A.has)
Acted == hist' # hist
Step == hist'[Len(hist')]
\* results of slicing / joining / stacking / subsetting / saving have a complete cell exactly when the input had
CompleteIff == [][Acted /\ Step.op \in {"index", "join_self", "stack_self", "atom_slice", "atom_slice_inplace", "save_load"}
                    => ((L'.has /\ A'.has) <=> (L.has /\ A.has))]_vars
IndexKeepsEach == [][Acted /\ Step.op = "index" => ((L'.has <=> L.has) /\ (A'.has <=> A.has))]_vars
View == <<L, A, n>>
Emit == PrintT(<<"TR", ToJson([hist |-> hist', L |-> L', A |-> A', n |-> n'])>>)
EmitLast == Len(hist') = D => Emit
=======================================================================
