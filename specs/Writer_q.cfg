SPECIFICATION Spec
CONSTANTS MaxFrames = 4
 MaxWrite = 2
 HasFlush = TRUE
 CellOpt = TRUE
 TimeOpt = TRUE
 CanAppend = TRUE
 Crashes = TRUE
 Dev = {}
INVARIANT OneShotEquivalence
INVARIANT Durable
INVARIANT DurableIsAccepted
PROPERTY RefusalIsClean
PROPERTY AppendOnly
ACTION_CONSTRAINT Emit
CHECK_DEADLOCK FALSE
