---------------------------- MODULE Cursor ----------------------------
(* Property C18: an open trajectory file is a cursor over its N frames (frames are 0..N-1).
   One action per public call of the file classes (read(n), read(), seek(k), seek(d,1), tell(), len()).
   `Dev` names the deviations from the property that the pinned code is known to have; the
   conformance check always runs against Dev = {} and uses the deviation-enabled trace spec only to
   decide whether an observed failure is exactly a listed known finding. *)
EXTENDS Integers, Sequences, FiniteSets, TLC, Json
CONSTANTS N,          \* number of frames in the file
          Handles,    \* set of handle ids (two handles on the same file)
          D,          \* history depth bound (exploration only)
          HasLen,     \* capability: __len__ offered
          CanSeek,    \* capability: seek offered
          HasTell,    \* capability: tell offered (Tinker .arc offers read only)
          Dev         \* set of enabled named deviations (empty = the property)
VARIABLES pos,        \* [Handles -> Nat] logical position reported by tell()
          lenSeen,    \* [Handles -> BOOLEAN] latent: len()/seek consulted the lazily built offsets cache
          hist        \* sequence of [h, op, arg, ret, pos] records (observation / export only)
vars == <<pos, lenSeen, hist>>
Min(a,b) == IF a < b THEN a ELSE b
Max(a,b) == IF a > b THEN a ELSE b
Ids(lo, hi) == [i \in 1..Max(hi-lo,0) |-> lo + i - 1]        \* frames lo..hi-1 as a sequence
Log(h, op, arg, ret, p) == hist' = Append(hist, [h |-> h, op |-> op, arg |-> arg, ret |-> ret, pos |-> p])

Init == /\ pos = [h \in Handles |-> 0] /\ lenSeen = [h \in Handles |-> FALSE] /\ hist = <<>>

\* --- the property's meaning ------------------------------------------------
IdealRead(h, n) == LET stop == Min(pos[h] + n, N) IN
    /\ pos' = [pos EXCEPT ![h] = stop]
    /\ Log(h, "read", n, Ids(pos[h], stop), stop)
    /\ UNCHANGED lenSeen
\* --- what the pinned code does instead (named deviations, used for known-finding triage only) ---
\* NetCDF: position advances by min(request, total) instead of by the number of frames returned.
NcRead(h, n) == LET start == Min(pos[h], N)  stop == Min(pos[h] + n, N)
                    adv == IF pos[h] >= N THEN pos[h] ELSE pos[h] + Min(n, N) IN
    /\ pos' = [pos EXCEPT ![h] = adv]
    /\ Log(h, "read", n, Ids(start, stop), adv)
    /\ UNCHANGED lenSeen
\* TRR: the failed decode at end-of-file is counted as a frame (frame_counter += i).
TrrRead(h, n) == LET start == Min(pos[h], N)  rem == N - start
                     adv == IF n <= rem THEN pos[h] + n ELSE pos[h] + rem + 1 IN
    /\ pos' = [pos EXCEPT ![h] = adv]
    /\ Log(h, "read", n, Ids(start, Min(start + n, N)), adv)
    /\ UNCHANGED lenSeen
Read(h, n) == IF "nc_advance_by_request" \in Dev THEN NcRead(h, n)
              ELSE IF "trr_eof_overcount" \in Dev THEN TrrRead(h, n)
              ELSE IdealRead(h, n)
\* read(): everything that remains.  (TRR loops _read(chunk) until an empty chunk: two failed decodes.)
ReadAll(h) == IF "trr_eof_overcount" \in Dev
              THEN LET start == Min(pos[h], N) IN
                   /\ pos' = [pos EXCEPT ![h] = pos[h] + (N - start) + 2]
                   /\ Log(h, "readall", 0, Ids(start, N), pos[h] + (N - start) + 2)
                   /\ UNCHANGED lenSeen
              ELSE IF "nc_advance_by_request" \in Dev
              THEN LET start == Min(pos[h], N)
                       adv == IF pos[h] >= N THEN pos[h] ELSE pos[h] + N IN
                   /\ pos' = [pos EXCEPT ![h] = adv]
                   /\ Log(h, "readall", 0, Ids(start, N), adv)
                   /\ UNCHANGED lenSeen
              ELSE /\ pos' = [pos EXCEPT ![h] = N]
                   /\ Log(h, "readall", 0, Ids(pos[h], N), N)
                   /\ UNCHANGED lenSeen
Seek(h, k) == /\ CanSeek /\ k \in 0..(N-1)
              /\ pos' = [pos EXCEPT ![h] = k] /\ lenSeen' = [lenSeen EXCEPT ![h] = TRUE]
              /\ Log(h, "seek", k, <<>>, k)
SeekRel(h, d) == /\ CanSeek /\ pos[h] + d \in 0..(N-1)
                 /\ pos' = [pos EXCEPT ![h] = pos[h] + d] /\ lenSeen' = [lenSeen EXCEPT ![h] = TRUE]
                 /\ Log(h, "seekrel", d, <<>>, pos[h] + d)
Tell(h) == /\ HasTell /\ Log(h, "tell", 0, <<pos[h]>>, pos[h]) /\ UNCHANGED <<pos, lenSeen>>
LenOp(h) == /\ HasLen /\ lenSeen' = [lenSeen EXCEPT ![h] = TRUE]
            /\ Log(h, "len", 0, <<N>>, pos[h]) /\ UNCHANGED pos
Next == \E h \in Handles :
          \/ \E n \in 1..(N+1) : Read(h, n)
          \/ ReadAll(h)
          \/ \E k \in 0..(N-1) : Seek(h, k)
          \/ \E d \in (-N)..N : d # 0 /\ SeekRel(h, d)
          \/ Tell(h) \/ LenOp(h)
Spec == Init /\ [][Next]_vars
\* --- properties ---------------------------------------------------------------
PosRange == \A h \in Handles : pos[h] \in 0..N
Last == hist[Len(hist)]
\* a read returns exactly the next frames and advances the position by the number returned
ReadIsNext == hist # <<>> /\ Last.op \in {"read", "readall"} =>
                 LET before == Last.pos - Len(Last.ret) IN
                 /\ before >= 0
                 /\ Last.op = "read" => Len(Last.ret) = Min(Last.arg, N - before)
                 /\ Last.op = "readall" => Last.pos = N
                 /\ \A i \in 1..Len(Last.ret) : Last.ret[i] = before + i - 1
LenConstant == hist # <<>> /\ Last.op = "len" => Last.ret = <<N>>
TellIsPos == hist # <<>> /\ Last.op = "tell" => Last.ret = <<pos[Last.h]>>
HandlesIndependent == [][\A h \in Handles : (hist' # hist /\ hist'[Len(hist')].h # h) => pos'[h] = pos[h]]_vars
\* --- exploration / export ---------------------------------------------------
View == <<pos, lenSeen>>
Emit == Len(hist) < D /\ PrintT(<<"TR", ToJson([hist |-> hist'])>>)
EmitLast == Len(hist) < D /\ (Len(hist') = D => PrintT(<<"TR", ToJson([hist |-> hist'])>>))
=======================================================================
