---------------------------- MODULE NeighborsMC ----------------------------
(* Model-checking instance for Neighbors: every (cell, displacement, cutoff) case; is "within the cutoff" decided by the
   wrap-only kernel of compute_neighbors / by the distance kernel exactly as by the definition? *)
EXTENDS Neighbors
CONSTANTS MaxL, MaxS, R
Cells == { <<<<ax,0,0>>, <<bx,by,0>>, <<cx,cy,cz>>>> : ax \in 2..MaxL, by \in 2..MaxL, cz \in 2..MaxL, bx \in -MaxS..MaxS, cx \in -MaxS..MaxS, cy \in -MaxS..MaxS }
VARIABLES cell, r, ph
vars == <<cell, r, ph>>
Init == cell = << <<1,0,0>>, <<0,1,0>>, <<0,0,1>> >> /\ r = <<0,0,0>> /\ ph = 0
PickCell == ph = 0 /\ ph' = 1 /\ cell' \in Cells /\ r' = r
PickR == ph = 1 /\ ph' = 2 /\ cell' = cell /\ r' \in {<<x,y,z>> : x \in -R..R, y \in -R..R, z \in -R..R}
Next == PickCell \/ PickR
Spec == Init /\ [][Next]_vars
\* cutoffs 2*cutoff \in {1,3,5,7} lattice units, restricted to cutoff <= half the smallest width:  c4 |face|^2 <= Vol^2
InRange(c4) == \A f \in Faces(cell) : c4 * N2(f) <= Volume(cell) * Volume(cell)
KernelDecidesExactly == ph = 2 => \A k \in {1, 3, 5, 7} : LET c4 == k * k IN
      InRange(c4) => /\ \A w \in WrapOnly2(r, cell) : (4 * w < c4) <=> (4 * TrueMin2(r, cell) < c4)
                     /\ \A d \in Algo2(r, cell) : (4 * d < c4) <=> (4 * TrueMin2(r, cell) < c4)
SymmetricDef == ph = 2 => TrueMin2(r, cell) = TrueMin2(Mul(-1, r), cell)
=======================================================================
