#!/venv/bin/python
"""Self-check of harness/vp/xtcdec.py: decode the GROMACS-produced XTC reference files shipped in /repo/tests/data and compare with the
coordinates the same systems have in other formats / with mdtraj's reader (agreement of two independent decoders on third-party data)."""
import glob, os, sys
sys.path.insert(0, os.path.join(os.path.dirname(os.path.abspath(__file__)), "..", "harness"))
import numpy as np
from vp import build
build.activate()
import mdtraj as md
from mdtraj.formats import XTCTrajectoryFile
from vp.xtcdec import read_xtc
bad = 0
for fn in sorted(glob.glob("/repo/tests/data/*.xtc")):
    try:
        with XTCTrajectoryFile(fn) as f:
            xyz, time, step, box = f.read()
    except Exception as e:
        print("skip", os.path.basename(fn), type(e).__name__); continue
    fr = read_xtc(fn)
    ok = len(fr) == len(xyz) and all(np.abs(f["xyz"] - x).max() < 1e-6 * (1 + np.abs(x).max()) for f, x in zip(fr, xyz)) \
        and np.allclose([f["time"] for f in fr], time) and np.allclose([f["box"] for f in fr], box) and [f["step"] for f in fr] == list(step)
    print(os.path.basename(fn), len(fr), "frames", fr[0]["natoms"], "atoms", "OK" if ok else "MISMATCH")
    bad += not ok
sys.exit(1 if bad else 0)
