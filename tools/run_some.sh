#!/bin/sh
# usage: run_some.sh <tier> <seed> Cxx...  -- the named checks one after the other
T=$1; S=$2; shift 2
cd /verif
for p in "$@"; do
  VERIF_SEED=$S timeout 7200 ./check $p --tier $T > .cache/all_${p}_${T}.log 2>&1; echo "$p exit=$? $(tail -1 .cache/all_${p}_${T}.log | cut -c1-150)"
done
