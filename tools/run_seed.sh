#!/bin/sh
# usage: run_seed.sh <seed dir name> <Cxx> [tier]  -- apply seeded/<name>/patch.diff to /repo, run the check, revert
N=$1; P=$2; T=${3:-quick}
cd /repo && git apply /verif/seeded/$N/patch.diff || { echo "PATCH DOES NOT APPLY $N"; exit 3; }
cd /verif && timeout 3000 ./check $P --tier $T > /verif/seeded/$N/check_${P}_${T}.log 2>&1; RC=$?
git -C /repo checkout -- . 
echo "$N $P $T exit=$RC $(grep -c '^VIOLATION' /verif/seeded/$N/check_${P}_${T}.log) violation lines; $(tail -1 /verif/seeded/$N/check_${P}_${T}.log | cut -c1-160)"
