#!/venv/bin/python
"""Run the repository's pinned baseline (guard OFF) and compare with /root/.vp/BASELINE.json stable_pass."""
import json, os, subprocess, sys, tempfile, xml.etree.ElementTree as ET
base = json.load(open("/root/.vp/BASELINE.json"))
out = os.path.join(tempfile.mkdtemp(prefix="bl", dir="/verif/.cache"), "junit.xml")
env = dict(os.environ); env.pop("MDTRAJ_VERIF", None)
cmd = base["cmd"].replace("<file>", out)
subprocess.run(cmd, shell=True, env=env, stdout=subprocess.DEVNULL, stderr=subprocess.DEVNULL)
passed = set()
for tc in ET.parse(out).getroot().iter("testcase"):
    if not any(ch.tag in ("failure", "error", "skipped") for ch in tc):
        passed.add(tc.get("classname") + "::" + tc.get("name"))
missing = [t for t in base["stable_pass"] if t not in passed]
print("baseline: %d/%d stable tests pass; %d missing" % (len(base["stable_pass"]) - len(missing), len(base["stable_pass"]), len(missing)))
for m in missing[:40]:
    print("  NOT PASSING:", m)
sys.exit(1 if missing else 0)
