#!/usr/bin/env python3
"""Fold what was run against each seeded change (verify.txt + check logs) into seeded/<id>/meta.json and write seeded/RESULTS.md."""
import glob, json, os, re
root = os.path.join(os.path.dirname(os.path.abspath(__file__)), "..", "seeded")
rows = []
for d in sorted(glob.glob(os.path.join(root, "C*"))):
    name = os.path.basename(d)
    mp = os.path.join(d, "meta.json")
    meta = json.load(open(mp))
    ver = dict(kv.split("=") for kv in open(os.path.join(d, "verify.txt")).read().split()) if os.path.exists(os.path.join(d, "verify.txt")) else {}
    ran = []
    for lg in sorted(glob.glob(os.path.join(d, "check_C*_*.log"))):
        m = re.match(r"check_(C\d+)_(\w+)\.log", os.path.basename(lg))
        txt = open(lg, errors="replace").read()
        viol = [l for l in txt.splitlines() if l.startswith("VIOLATION")]
        last = txt.strip().splitlines()[-1] if txt.strip() else ""
        ran.append(dict(check=m.group(1), tier=m.group(2), detected=bool(viol), violation_lines=len(viol), first=(viol[0][:300] if viol else None), summary=last[:200]))
    meta["verified"] = dict(demo_exit_with_change=int(ver.get("with_change_exit", -1)), demo_exit_without_change=int(ver.get("without_change_exit", -1)),
                            baseline_exit_with_change=int(ver.get("baseline_exit", -1)),
                            how="tools/verify_seed.sh: demo.py run in the agent's scratch worktree with and without the change (extensions rebuilt), pinned baseline (907 stable tests) with the change")
    meta["ran"] = ran
    meta.setdefault("notes", meta.get("notes", ""))
    json.dump(meta, open(mp, "w"), indent=1)
    rows.append((name, meta.get("property", name), meta.get("summary", "")[:160].replace("\n", " "), ver, ran))
with open(os.path.join(root, "RESULTS.md"), "w") as f:
    f.write("# Seeded changes (never committed to /repo)\n\nEach directory: patch.diff (apply with `git -C /repo apply`), demo.py, meta.json (what it breaks, what it needs, what was run).\n"
            "Reproduce a row with `tools/run_seed.sh <dir> <Cxx> [tier]` (applies, runs ./check, reverts).\n\n| seed | property | demo fails with / passes without | baseline with change | checks run -> detected | change |\n|---|---|---|---|---|---|\n")
    for name, prop, summ, ver, ran in rows:
        f.write("| %s | %s | %s / %s | %s | %s | %s |\n" % (name, prop, ver.get("with_change_exit") == "1", ver.get("without_change_exit") == "0",
                "907/907" if ver.get("baseline_exit") == "0" else "NOT clean (seed not valid)", "; ".join("%s %s: %s" % (r["check"], r["tier"], "DETECTED" if r["detected"] else "missed") for r in ran), summ))
