#!/bin/sh
# usage: verify_seed.sh <Cxx> [name]  -- confirm an agent's seeded change in its scratch worktree /tmp/wt/<name> and copy it to /verif/seeded/<id>
# (no git stash: the stash is shared by all worktrees of a repository; the worktree is first reset to exactly the agent's patch.diff)
P=$1; N=${2:-$1}; WT=/tmp/wt/$N; OUT=/verif/seeded/$N
mkdir -p $OUT; cp $WT/_out/patch.diff $WT/_out/demo.py $WT/_out/meta.json $OUT/ 2>/dev/null
cd $WT
git checkout -q -- mdtraj 2>/dev/null; git apply $OUT/patch.diff || { echo "patch does not apply on a clean worktree: $N"; exit 3; }
/venv/bin/python /tmp/wt-tools/rebuild_ext.py $WT > /dev/null 2>&1
( PYTHONPATH=$WT timeout 600 /venv/bin/python _out/demo.py > $OUT/demo_with_change.log 2>&1; echo "with_change_exit=$?" > $OUT/verify.txt )
/venv/bin/python /tmp/wt-tools/baseline_check.py $WT > $OUT/baseline_with_change.log 2>&1; echo "baseline_exit=$?" >> $OUT/verify.txt
git apply -R $OUT/patch.diff
/venv/bin/python /tmp/wt-tools/rebuild_ext.py $WT > /dev/null 2>&1
( PYTHONPATH=$WT timeout 600 /venv/bin/python _out/demo.py > $OUT/demo_without_change.log 2>&1; echo "without_change_exit=$?" >> $OUT/verify.txt )
git apply $OUT/patch.diff; /venv/bin/python /tmp/wt-tools/rebuild_ext.py $WT > /dev/null 2>&1
cat $OUT/verify.txt | tr '\n' ' '; echo " $N"
