#!/bin/sh
# usage: run_all.sh [tier] [seed]  -- every claimed check on the current tree, one after the other; summary on stdout
T=${1:-quick}; S=${2:-0}
cd /verif
for p in $(python3 -c "import json; print(' '.join(sorted(c['property_id'] if 'property_id' in c else c['id'] for c in json.load(open('MANIFEST.json'))['claims'])))" 2>/dev/null || python3 -c "import json; print(' '.join(sorted(json.load(open('tools/claims.json')))))"); do
  VERIF_SEED=$S timeout 7200 ./check $p --tier $T > .cache/all_${p}_${T}.log 2>&1; echo "$p exit=$? $(tail -1 .cache/all_${p}_${T}.log | cut -c1-150)"
done
