#!/venv/bin/python
"""Regenerate MANIFEST.json from the table below (single source of truth for claims)."""
import json, os
HERE = os.path.dirname(os.path.dirname(os.path.abspath(__file__)))
props = [json.loads(l)["id"] for l in open(os.path.join(HERE, "properties.jsonl"))]
CLAIMS = json.load(open(os.path.join(HERE, "tools", "claims.json")))
checks = []
for pid in props:
    c = CLAIMS.get(pid)
    if not c or c.get("na"):
        continue
    checks.append({
        "property_id": pid,
        "quick_cmd": "./check %s --tier quick" % pid,
        "thorough_cmd": "./check %s --tier thorough" % pid,
        "evidence_file": "/verif/evidence/%s.json" % pid,
        "replay_cmd_template": "./check %s --replay {path}" % pid,
        "engine": "tlc+replay",
        "level_claimed": {"category": c.get("category", "model_checking"), "text": c["text"], "design_ref": c.get("design_ref", "DESIGN.md section 5 / " + pid)},
        "level_note": c["note"],
        "technique": c["technique"],
    })
na = [{"property_id": p, "reason": (CLAIMS.get(p) or {}).get("na", "check not built yet (construction order in DESIGN.md section 10)")} for p in props if not CLAIMS.get(p) or CLAIMS[p].get("na")]
m = {"version": 1,
     "setup_cmd": "/venv/bin/python /verif/harness/vp/build.py",
     "hooks": {"guard": "MDTRAJ_VERIF", "enable": "no hook is installed; the checks observe mdtraj through its public API (extensions are rebuilt from /repo's working tree into /verif/.cache and overlaid at import)",
               "baseline_off_cmd": "cd /repo && /venv/bin/python -m pytest -ra -q -p no:cacheprovider --timeout=900 --continue-on-collection-errors",
               "source_commits": [], "add_only": True},
     "engines": [{"name": "tlc+replay", "path": "/verif/check", "serves_properties": [c["property_id"] for c in checks],
                  "kind_free_text": "TLA+ specifications in /verif/specs model-checked by TLC; TLC-emitted behaviours replayed into mdtraj (spec->code) and recorded executions validated by trace specs (code->spec); drivers in /verif/harness/vp/drivers"}],
     "checks": checks,
     "notes": "See DESIGN.md. Known genuine defects: KNOWN_FINDINGS.json. Seeded breakages: seeded/.",
     "not_applicable": na}
json.dump(m, open(os.path.join(HERE, "MANIFEST.json"), "w"), indent=1)
print("claimed:", [c["property_id"] for c in checks])
