SPECIFICATION Spec
CONSTANTS NF = 2
 D = 3
INVARIANT FieldLen
INVARIANT VectorsIffBoth
INVARIANT NoHalfSetAfterVectors
INVARIANT PositiveVolume
PROPERTY JoinKeepsCompleteness
PROPERTY IndexKeepsCompleteness
CHECK_DEADLOCK FALSE
