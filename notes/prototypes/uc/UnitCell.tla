---------------------------- MODULE UnitCell ----------------------------
(* Unit cells of a trajectory (C17).  A frame's cell is a Gram matrix record (integers, scaled by 36 so that
   cos = 0, +-1/2, -1/3 stay integral for the catalogue's lengths); a trajectory stores lengths and angles
   separately, so either may be missing.  Vectors are derived and exist only when both are present. *)
EXTENDS Integers, Sequences, FiniteSets, TLC, Json
CONSTANTS NF, D
\* Gram record: aa,bb,cc = squared lengths; bc, ca, ab = dot products (alpha is the angle between b and c, ...)
Gm(aa,bb,cc,bc,ca,ab) == [aa |-> aa, bb |-> bb, cc |-> cc, bc |-> bc, ca |-> ca, ab |-> ab]
Catalogue == { Gm(36,36,36,0,0,0),            \* cubic 6x6x6 (units: 1/6)
               Gm(36,81,144,0,0,0),           \* orthorhombic 6,9,12
               Gm(36,36,144,0,0,-18),         \* hexagonal, gamma = 120
               Gm(36,36,144,0,0,18),          \* hexagonal, gamma = 60
               Gm(36,81,144,0,-36,0),         \* monoclinic, cos beta = -1/2 (6*12*(-1/2))
               Gm(81,81,81,-27,-27,-27),      \* truncated-octahedron-like, all cos = -1/3
               Gm(36,81,144,54,-36,-27) }     \* three different angles: cos alpha=1/2, cos beta=-1/2, cos gamma=-1/2
Lengths(g) == <<g.aa, g.bb, g.cc>>                 \* squared
Angles(g)  == <<g.bc, g.ca, g.ab>>                 \* as dot products; with Lengths they determine the cosines
Det(g) == g.aa*g.bb*g.cc + 2*g.bc*g.ca*g.ab - g.aa*g.bc*g.bc - g.bb*g.ca*g.ca - g.cc*g.ab*g.ab     \* = Volume^2
VARIABLES L, A, n, hist        \* L, A: [has |-> BOOLEAN, v |-> Seq]; n = number of frames
vars == <<L, A, n, hist>>
None == [has |-> FALSE, v |-> <<>>]
Some(v) == [has |-> TRUE, v |-> v]
Log(r) == hist' = Append(hist, r)
HaveCell == L.has /\ A.has
Vectors == IF HaveCell THEN Some([i \in 1..n |-> [len |-> L.v[i], ang |-> A.v[i]]]) ELSE None
Init == n = NF /\ L = None /\ A = None /\ hist = <<>>
SetVectors == \E gs \in [1..n -> Catalogue] :
      /\ L' = Some([i \in 1..n |-> Lengths(gs[i])]) /\ A' = Some([i \in 1..n |-> Angles(gs[i])])
      /\ UNCHANGED n /\ Log([op |-> "set_vectors", g |-> gs])
SetVectorsNone == L' = None /\ A' = None /\ UNCHANGED n /\ Log([op |-> "set_vectors_none", g |-> <<>>])
SetLengthsNone == L' = None /\ UNCHANGED <<A, n>> /\ Log([op |-> "set_lengths_none", g |-> <<>>])
SetAnglesNone == A' = None /\ UNCHANGED <<L, n>> /\ Log([op |-> "set_angles_none", g |-> <<>>])
SetLengths == \E g \in Catalogue : L' = Some([i \in 1..n |-> Lengths(g)]) /\ UNCHANGED <<A, n>> /\ Log([op |-> "set_lengths", g |-> <<g>>])
SetAngles == \E g \in Catalogue : A' = Some([i \in 1..n |-> Angles(g)]) /\ UNCHANGED <<L, n>> /\ Log([op |-> "set_angles", g |-> <<g>>])
Sel(s, idx) == [k \in 1..Len(idx) |-> s[idx[k]]]
Index == \E idx \in { <<1>>, <<n>>, [k \in 1..n |-> n + 1 - k] } :
      /\ L' = (IF L.has THEN Some(Sel(L.v, idx)) ELSE None) /\ A' = (IF A.has THEN Some(Sel(A.v, idx)) ELSE None)
      /\ n' = Len(idx) /\ Log([op |-> "index", g |-> idx])
JoinSelf == /\ 2*n <= 2*NF
            /\ L' = (IF HaveCell THEN Some(L.v \o L.v) ELSE None) /\ A' = (IF HaveCell THEN Some(A.v \o A.v) ELSE None)
            /\ n' = 2*n /\ Log([op |-> "join_self", g |-> <<>>])
Next == Len(hist) < D /\ (SetVectors \/ SetVectorsNone \/ SetLengthsNone \/ SetAnglesNone \/ SetLengths \/ SetAngles \/ Index \/ JoinSelf)
Spec == Init /\ [][Next]_vars
\* ---- properties ----
FieldLen == (L.has => Len(L.v) = n) /\ (A.has => Len(A.v) = n)
VectorsIffBoth == Vectors.has <=> (L.has /\ A.has)
NoHalfSetAfterVectors == (hist # <<>> /\ hist[Len(hist)].op \in {"set_vectors", "set_vectors_none"}) => (L.has <=> A.has)
JoinKeepsCompleteness == [][(hist'[Len(hist')].op = "join_self") => ((L'.has /\ A'.has) <=> (L.has /\ A.has))]_vars
IndexKeepsCompleteness == [][(hist'[Len(hist')].op = "index") => ((L'.has <=> L.has) /\ (A'.has <=> A.has))]_vars
PositiveVolume == \A g \in Catalogue : Det(g) > 0
View == <<L, A, n>>
Emit == PrintT(<<"TR", ToJson([hist |-> hist', L |-> L', A |-> A', n |-> n', vol2 |-> IF L'.has /\ A'.has THEN [i \in 1..n' |-> 0] ELSE <<>>])>>)
=======================================================================
