---------------------------- MODULE Loader ----------------------------
(* md.iterload as the loop it runs over a cursor (C02).  One behaviour = one
   (N, chunk, stride, skip) configuration chosen in the first step. *)
EXTENDS Integers, Sequences, FiniteSets, TLC, Json
CONSTANTS MaxN, MaxStride, Dev
VARIABLES n, chunk, stride, skip, pos, out, pc
vars == <<n, chunk, stride, skip, pos, out, pc>>
Min(a,b) == IF a < b THEN a ELSE b
\* strided read contract: at most k frames pos, pos+s, ... (< n); position advances over k*s file frames
StridedIds(p, k, s, nn) == LET m == Min(k, (nn - p + s - 1) \div s) IN [i \in 1..(IF p >= nn THEN 0 ELSE m) |-> p + (i-1)*s]
\* what hdf5.read does today: spans k FILE frames, returns every s-th of them  (deviation "h5_span")
SpanIds(p, k, s, nn) == LET stop == Min(p + k, nn) IN [i \in 1..(IF p >= stop THEN 0 ELSE (stop - p + s - 1) \div s) |-> p + (i-1)*s]
Init == n = 0 /\ chunk = 0 /\ stride = 1 /\ skip = 0 /\ pos = 0 /\ out = <<>> /\ pc = "config"
Config == /\ pc = "config"
          /\ n' \in 1..MaxN /\ stride' \in 1..MaxStride
          /\ chunk' \in 0..(MaxN+1) /\ skip' \in 0..MaxN
          /\ skip' <= n' /\ chunk' <= n' + 1
          /\ pos' = 0 /\ out' = <<>> /\ pc' = "seek"
SeekSkip == /\ pc = "seek" /\ pos' = skip /\ pc' = (IF chunk = 0 THEN "all" ELSE "loop") /\ UNCHANGED <<n, chunk, stride, skip, out>>
ReadAllOnce == /\ pc = "all"       \* chunk = 0: a single chunk holding the strided, skipped remainder
               /\ out' = <<StridedIds(pos, n + 1, stride, n)>> /\ pos' = n /\ pc' = "done" /\ UNCHANGED <<n, chunk, stride, skip>>
LoopStep == /\ pc = "loop"
            /\ LET ids == IF "h5_span" \in Dev THEN SpanIds(pos, chunk, stride, n) ELSE StridedIds(pos, chunk, stride, n)
                   adv == IF "h5_span" \in Dev THEN Min(pos + chunk, n) ELSE Min(pos + chunk*stride, n) IN
                 IF Len(ids) = 0 THEN pc' = "done" /\ UNCHANGED <<pos, out>>
                 ELSE out' = Append(out, ids) /\ pos' = adv /\ pc' = "loop"
            /\ UNCHANGED <<n, chunk, stride, skip>>
Next == Config \/ SeekSkip \/ ReadAllOnce \/ LoopStep
Spec == Init /\ [][Next]_vars /\ WF_vars(Next)
\* ---- properties ----
Flat(ss) == IF Len(ss) = 0 THEN <<>> ELSE LET RECURSIVE F(_) F(k) == IF k = 0 THEN <<>> ELSE F(k-1) \o ss[k] IN F(Len(ss))
Expected == LET cnt == IF skip >= n THEN 0 ELSE (n - skip + stride - 1) \div stride IN [i \in 1..cnt |-> skip + (i-1)*stride]
ConcatIsStridedSkipped == pc = "done" => Flat(out) = Expected
ChunkSizes == (pc = "done" /\ chunk > 0) => /\ \A i \in 1..(Len(out)-1) : Len(out[i]) = chunk
                                             /\ Len(out) > 0 => Len(out[Len(out)]) \in 1..chunk
Terminates == <>(pc = "done")
Emit == pc' = "done" => PrintT(<<"TR", ToJson([n |-> n, chunk |-> chunk, stride |-> stride, skip |-> skip, out |-> out'])>>)
=======================================================================
