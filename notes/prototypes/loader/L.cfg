SPECIFICATION Spec
CONSTANTS MaxN = 6
 MaxStride = 3
 Dev = {"h5_span"}
INVARIANT ConcatIsStridedSkipped
INVARIANT ChunkSizes
PROPERTY Terminates
ACTION_CONSTRAINT Emit
CHECK_DEADLOCK FALSE
