---------------------------- MODULE DsspTrace ----------------------------
EXTENDS Dssp, Json, IOUtils, TLCExt
Tr == JsonDeserialize(IOEnv.TRACE_FILE)
Rec(k) == LET t == Tr[k] IN
   [n |-> t.n, chain |-> t.chain, skip |-> [i \in 1..t.n |-> t.skip[i] = 1],
    hb |-> { <<t.hb[i][1], t.hb[i][2]>> : i \in 1..Len(t.hb) }, bend |-> [i \in 1..t.n |-> t.bend[i] = 1]]
VARIABLE l
Init == l = 1
Check(k) == LET got == Codes(Rec(k)) IN
   IF got = Tr[k].codes THEN TRUE
   ELSE PrintT(<<"REJECT", k, Tr[k].tag, [i \in 1..Tr[k].n |-> IF got[i] = Tr[k].codes[i] THEN "." ELSE got[i] \o "/" \o Tr[k].codes[i]]>>)
Next == l <= Len(Tr) /\ Check(l) /\ l' = l + 1
Spec == Init /\ [][Next]_l
Accepted == TLCGet("stats").diameter - 1 = Len(Tr)
=======================================================================
