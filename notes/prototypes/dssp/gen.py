import mdtraj as md, numpy as np, json, glob, warnings, sys
warnings.simplefilter('ignore')
from mdtraj.geometry.hbond import _prep_kabsch_sander_arrays
recs=[]
files=sys.argv[1:]
for fn in files:
    try: t=md.load(fn)
    except Exception as e: print('skip',fn,e); continue
    if t.n_residues<6 or t.n_residues>130: continue
    _,nco,ca,pro,isprot=_prep_kabsch_sander_arrays(t)
    chain=[r.chain.index for r in t.top.residues]
    nfr=min(t.n_frames,3)
    try:
        ks=md.kabsch_sander(t[:nfr]); ds=md.compute_dssp(t[:nfr],simplified=False)
    except Exception as e: print('skip',fn,type(e).__name__,e); continue
    for f in range(nfr):
        m=ks[f].tocoo()
        hb=[[int(c),int(r)] for r,c in zip(m.row,m.col)]   # [donor, acceptor]
        n=t.n_residues; bend=[0]*n; near=False
        for i in range(2,n-2):
            if chain[i-2]==chain[i+2] and isprot[i-2] and isprot[i] and isprot[i+2]:
                x=t.xyz[f]; u=x[ca[i-2]]-x[ca[i]]; v=x[ca[i]]-x[ca[i+2]]
                cosang=float(np.dot(u,v)/np.sqrt(np.dot(u,u)*np.dot(v,v))); k=np.degrees(np.arccos(np.clip(cosang,-1,1)))
                bend[i]=int(k>70); near |= abs(k-70)<1e-3
        if near: continue
        recs.append(dict(tag=fn.split('/')[-1]+'#%d'%f,n=n,chain=chain,skip=[int(not p) for p in isprot],hb=hb,bend=bend,codes=[str(c) for c in ds[f]]))
json.dump(recs,open('trace.json','w'))
print(len(recs),'records', sum(r['n'] for r in recs),'residues')
