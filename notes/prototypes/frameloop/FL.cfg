SPECIFICATION Spec
CONSTANTS T = 3
 F = 4
 ResetPerFrame = FALSE
 StaticOnly = FALSE
INVARIANT ScheduleFree
CHECK_DEADLOCK FALSE
