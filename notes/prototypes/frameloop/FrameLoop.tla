---------------------------- MODULE FrameLoop ----------------------------
(* A parallel per-frame loop with thread-private scratch (C08, C13): sasa.cpp's
   `omp parallel private(...) / omp for` and the Cython pranges.  A frame's result must not
   depend on which thread ran it, on what that thread ran before, or on interleaving. *)
EXTENDS Integers, Sequences, FiniteSets, TLC
CONSTANTS T, F, ResetPerFrame, StaticOnly
Threads == 1..T
Frames == 1..F
VARIABLES todo,      \* frames not yet claimed
          cur,       \* [Threads -> frame being processed or 0]
          scratch,   \* [Threads -> what the private buffer holds: sequence of frames accumulated into it]
          out,       \* [Frames -> value published, <<>> until done]
          owner      \* [Frames -> thread] static pre-assignment (used when StaticOnly)
vars == <<todo, cur, scratch, out, owner>>
Blocks == { o \in [Frames -> Threads] : \A f, g \in Frames : f < g => o[f] <= o[g] }   \* contiguous static blocks
Init == /\ todo = Frames /\ cur = [t \in Threads |-> 0] /\ scratch = [t \in Threads |-> <<>>]
        /\ out = [f \in Frames |-> <<>>] /\ owner \in Blocks
\* kernel: the value is "what was accumulated", ideal = just this frame
Begin(t, f) == /\ cur[t] = 0 /\ f \in todo /\ (StaticOnly => owner[f] = t /\ \A g \in todo : owner[g] = t => f <= g)
               /\ todo' = todo \ {f} /\ cur' = [cur EXCEPT ![t] = f]
               /\ scratch' = [scratch EXCEPT ![t] = (IF ResetPerFrame THEN <<>> ELSE scratch[t]) \o <<f>>]
               /\ UNCHANGED <<out, owner>>
Publish(t) == /\ cur[t] # 0 /\ out' = [out EXCEPT ![cur[t]] = scratch[t]] /\ cur' = [cur EXCEPT ![t] = 0]
              /\ UNCHANGED <<todo, scratch, owner>>
Next == \E t \in Threads : (\E f \in Frames : Begin(t, f)) \/ Publish(t)
Spec == Init /\ [][Next]_vars
ScheduleFree == \A f \in Frames : out[f] # <<>> => out[f] = <<f>>
=======================================================================
