---------------------------- MODULE FileGuard ----------------------------
(* The file system under mdtraj's writers and readers (C20).  A path holds Absent or a content token;
   new content written by action number k is the token <<"new", k>>. *)
EXTENDS Integers, Sequences, FiniteSets, TLC, Json
CONSTANTS Paths, PreKinds, D, MultiFile     \* MultiFile: the format writes path.1 .. path.n for n > 1 frames (rst7, ncrst)
VARIABLES fs, hist
vars == <<fs, hist>>
Absent == <<"absent">>
Log(r) == hist' = Append(hist, r)
Numbered(p, n) == { <<p, k>> : k \in 1..n }                 \* the numbered companions of p
Targets(p, n) == IF MultiFile /\ n > 1 THEN Numbered(p, n) ELSE { <<p, 0>> }
AllFiles == { <<p, k>> : p \in Paths, k \in 0..2 }
Init == /\ fs \in [AllFiles -> {Absent} \cup { <<"old", kd>> : kd \in PreKinds }]
        /\ hist = <<>>
\* Save / open-for-write + write + close: refuse iff any target exists and overwriting was not requested.
\* The code creates numbered files one after another, so with fo = FALSE the files before the first existing one ARE created.
FirstBlocked(p, n, fo) == IF fo THEN 0 ELSE
     LET ks == { k \in 1..n : fs[<<p, k>>] # Absent } IN IF ks = {} THEN 0 ELSE CHOOSE k \in ks : \A j \in ks : k <= j
Write(p, n, fo, entry) ==
  LET tg == Targets(p, n)  id == Len(hist) + 1 IN
  IF MultiFile /\ n > 1
  THEN LET b == FirstBlocked(p, n, fo) IN
       /\ fs' = [f \in AllFiles |-> IF f \in tg /\ (b = 0 \/ f[2] < b) THEN <<"new", id>> ELSE fs[f]]
       /\ Log([op |-> entry, p |-> p, n |-> n, fo |-> fo, ok |-> b = 0])
  ELSE LET blocked == ~fo /\ fs[<<p, 0>>] # Absent IN
       /\ fs' = IF blocked THEN fs ELSE [fs EXCEPT ![<<p, 0>>] = <<"new", id>>]
       /\ Log([op |-> entry, p |-> p, n |-> n, fo |-> fo, ok |-> ~blocked])
Read(p, entry) == fs[<<p, 0>>] # Absent /\ UNCHANGED fs /\ Log([op |-> entry, p |-> p, n |-> 0, fo |-> FALSE, ok |-> TRUE])
Next == /\ Len(hist) < D
        /\ \E p \in Paths :
             \/ \E n \in {1, 2}, fo \in BOOLEAN, e \in {"save", "open_w"} : Write(p, n, fo, e)
             \/ \E e \in {"load", "load_frame", "iterload", "open_r", "load_topology"} : Read(p, e)
Spec == Init /\ [][Next]_vars
\* ---- properties ----
Last == hist[Len(hist)]
NoClobber == [][\A f \in AllFiles : (fs[f] # Absent /\ ~hist'[Len(hist')].fo) => fs'[f] = fs[f]]_vars
FullReplace == [][(hist'[Len(hist')].op \in {"save","open_w"} /\ hist'[Len(hist')].fo)
                     => \A f \in Targets(hist'[Len(hist')].p, hist'[Len(hist')].n) : fs'[f] = <<"new", Len(hist')>>]_vars
ReadsPure == [][hist'[Len(hist')].op \in {"load","load_frame","iterload","open_r","load_topology"} => fs' = fs]_vars
RefusedIffExists == [][(hist'[Len(hist')].op \in {"save","open_w"} /\ ~hist'[Len(hist')].fo)
                         => (hist'[Len(hist')].ok <=> \A f \in Targets(hist'[Len(hist')].p, hist'[Len(hist')].n) : fs[f] = Absent)]_vars
Emit == PrintT(<<"TR", ToJson([pre |-> [f \in AllFiles |-> fs[f]], step |-> hist'[Len(hist')], post |-> [f \in AllFiles |-> fs'[f]]])>>)
=======================================================================
