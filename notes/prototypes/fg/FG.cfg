SPECIFICATION Spec
CONSTANTS Paths = {"p"}
 PreKinds = {"valid", "junk"}
 D = 2
 MultiFile = TRUE
PROPERTY NoClobber
PROPERTY FullReplace
PROPERTY ReadsPure
PROPERTY RefusedIffExists
CHECK_DEADLOCK FALSE
