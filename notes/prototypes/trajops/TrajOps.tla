---------------------------- MODULE TrajOps ----------------------------
(* Trajectory objects as token matrices with a hidden RMSD-trace cache (C03).
   A coordinate token is [f, a, v]: source frame, source atom, and a structural
   "version" recording the rigid in-place transforms applied (content-addressed,
   so equal content <=> equal token along every path). *)
EXTENDS Integers, Sequences, FiniteSets, TLC, Json
CONSTANTS F, A, Obj, D, FixSlice, FixAtomSliceInplace     \* design switches (TRUE = intended design)
VARIABLES o,      \* [Obj -> Null or record]
          sh,     \* set of <<x, y, field>>: y may share `field` memory with x
          hist
vars == <<o, sh, hist>>
Null == [null |-> TRUE]
NoTr == [has |-> FALSE, v |-> <<>>]
Live(x) == "xyz" \in DOMAIN o[x]
Raw(f, a) == [f |-> f, a |-> a, v |-> <<>>]
BaseObj == [xyz |-> [i \in 1..F |-> [j \in 1..A |-> Raw(i, j)]], time |-> [i \in 1..F |-> i],
            cell |-> [has |-> TRUE, v |-> [i \in 1..F |-> i]], tr |-> NoTr]
NRows(t) == Len(t.xyz)
NCols(t) == IF Len(t.xyz) = 0 THEN 0 ELSE Len(t.xyz[1])
Sel(s, idx) == [k \in 1..Len(idx) |-> s[idx[k]]]
\* index keys: all slices (arithmetic progressions, both directions) and a few fancy keys
Slices(n) == { [k \in 1..m |-> st + (k-1)*step] : st \in 1..n, step \in {-2,-1,1,2}, m \in 1..n } 
Keys(n) == { s \in Slices(n) : \A k \in 1..Len(s) : s[k] \in 1..n }
Fancy(n) == IF n >= 2 THEN { <<2,1>>, <<1,1>>, <<n,1,n>> } ELSE { <<1,1>> }
ColSets(n) == { s \in Keys(n) : \A k \in 1..(Len(s)-1) : s[k] < s[k+1] }   \* strictly increasing atom subsets
Index(t, idx, fix) == [xyz |-> Sel(t.xyz, idx), time |-> Sel(t.time, idx),
                       cell |-> [has |-> t.cell.has, v |-> IF t.cell.has THEN Sel(t.cell.v, idx) ELSE <<>>],
                       tr |-> IF ~t.tr.has THEN NoTr ELSE IF fix THEN [has |-> TRUE, v |-> Sel(t.tr.v, idx)] ELSE t.tr]
AtomSel(t, cs) == [i \in 1..NRows(t) |-> Sel(t.xyz[i], cs)]
Centre(row) == [j \in 1..Len(row) |-> [f |-> row[j].f, a |-> row[j].a, v |-> <<row>>]]
Log(rec) == hist' = Append(hist, rec)
Put(dst, val) == o' = [o EXCEPT ![dst] = val]
Fresh(dst) == sh' = { p \in sh : p[1] # dst /\ p[2] # dst }
Init == o = [x \in Obj |-> IF x = 1 THEN BaseObj ELSE Null] /\ sh = {} /\ hist = <<>>
OpIndex(src, dst, idx, kind) == /\ Live(src) /\ dst # src
    /\ Put(dst, Index(o[src], idx, FixSlice)) /\ Fresh(dst)
    /\ Log([op |-> "index", src |-> src, dst |-> dst, idx |-> idx, kind |-> kind])
OpJoin(x, y, dst) == /\ Live(x) /\ Live(y) /\ dst # x /\ dst # y
    /\ NCols(o[x]) = NCols(o[y]) /\ o[x].cell.has = o[y].cell.has
    /\ NRows(o[x]) + NRows(o[y]) <= F + 2
    /\ Put(dst, [xyz |-> o[x].xyz \o o[y].xyz, time |-> o[x].time \o o[y].time,
                 cell |-> [has |-> o[x].cell.has, v |-> o[x].cell.v \o o[y].cell.v], tr |-> NoTr])
    /\ Fresh(dst) /\ Log([op |-> "join", x |-> x, y |-> y, dst |-> dst])
OpAtomSlice(src, dst, cs) == /\ Live(src) /\ dst # src
    /\ Put(dst, [o[src] EXCEPT !.xyz = AtomSel(o[src], cs), !.tr = NoTr]) /\ Fresh(dst)
    /\ Log([op |-> "atom_slice", src |-> src, dst |-> dst, cols |-> cs, inplace |-> FALSE])
OpAtomSliceInplace(src, cs) == /\ Live(src)
    /\ o' = [o EXCEPT ![src].xyz = AtomSel(o[src], cs),
                      ![src].tr = IF FixAtomSliceInplace THEN NoTr ELSE o[src].tr]
    /\ UNCHANGED sh /\ Log([op |-> "atom_slice", src |-> src, dst |-> src, cols |-> cs, inplace |-> TRUE])
OpCentre(x) == /\ Live(x)
    /\ LET new == [i \in 1..NRows(o[x]) |-> Centre(o[x].xyz[i])] IN
         o' = [o EXCEPT ![x].xyz = new, ![x].tr = [has |-> TRUE, v |-> new]]
    /\ UNCHANGED sh /\ Log([op |-> "center", x |-> x])
Next == \/ \E src \in Obj, dst \in Obj : Live(src) /\
              ( \/ \E idx \in Keys(NRows(o[src])) : OpIndex(src, dst, idx, "slice")
                \/ \E idx \in Fancy(NRows(o[src])) : OpIndex(src, dst, idx, "fancy")
                \/ \E cs \in ColSets(NCols(o[src])) : OpAtomSlice(src, dst, cs) )
        \/ \E x \in Obj, y \in Obj, dst \in Obj : OpJoin(x, y, dst)
        \/ \E src \in Obj : Live(src) /\ \E cs \in ColSets(NCols(o[src])) : Len(cs) < NCols(o[src]) /\ OpAtomSliceInplace(src, cs)
        \/ \E x \in Obj : OpCentre(x)
Spec == Init /\ [][Next]_vars
\* ---- properties ----
CacheSound == \A x \in Obj : (Live(x) /\ o[x].tr.has) =>
                 /\ Len(o[x].tr.v) = NRows(o[x])
                 /\ \A i \in 1..NRows(o[x]) : o[x].tr.v[i] = o[x].xyz[i]
FieldLengths == \A x \in Obj : Live(x) => Len(o[x].time) = NRows(o[x]) /\ (o[x].cell.has => Len(o[x].cell.v) = NRows(o[x]))
View == <<o, sh>>
Bound == Len(hist) < D
Emit == PrintT(<<"TR", ToJson([hist |-> hist'])>>)
BoundedEmit == Len(hist) < D /\ Emit      \* bound on the SOURCE state: a state CONSTRAINT would drop boundary successors before Emit runs
=======================================================================
