import json, sys, time, random, collections, warnings
import numpy as np, mdtraj as md
warnings.simplefilter('ignore')
F=3; A=2; B=3   # each spec atom = block of B real atoms
rs=np.random.RandomState(7)
top=md.Topology(); ch=top.add_chain()
for i in range(A*B): top.add_atom('CA',md.element.carbon,top.add_residue('ALA',ch))
BASE=(rs.rand(F,A*B,3)*2+np.arange(F)[:,None,None]*0.37).astype(np.float32)
def base():
    t=md.Trajectory(BASE.copy(),top,time=np.arange(F)*1.5+1,unitcell_lengths=np.tile([[5.,6.,7.]],(F,1))+np.arange(F)[:,None]*0.1,unitcell_angles=np.full((F,3),90.))
    sh=dict(xyz=BASE.astype(np.float32).copy(),time=t.time.copy(),L=t.unitcell_lengths.copy())
    return t,sh
def key_of(idx):
    idx0=[i-1 for i in idx]
    if len(idx0)==1: return slice(idx0[0],idx0[0]+1)
    step=idx0[1]-idx0[0]
    if step!=0 and all(idx0[k+1]-idx0[k]==step for k in range(len(idx0)-1)):
        stop=idx0[-1]+step
        return slice(idx0[0], None if stop<0 else stop, step)
    return idx0
def cols(cs): return [ (c-1)*B+k for c in cs for k in range(B)]
def fresh_traces(x):
    c=x-x.mean(1,keepdims=True); return (c.astype(np.float64)**2).sum((1,2))
def check(t,sh):
    if t.xyz.shape!=sh['xyz'].shape: return 'shape %s vs %s'%(t.xyz.shape,sh['xyz'].shape)
    if not np.allclose(t.xyz,sh['xyz'],atol=2e-6): return 'xyz'
    if not np.array_equal(t.time,sh['time']): return 'time'
    if (t.unitcell_lengths is None)!=(sh['L'] is None) or (sh['L'] is not None and not np.allclose(t.unitcell_lengths,sh['L'])): return 'cell'
    tr=getattr(t,'_rmsd_traces',None)
    if tr is not None:
        if len(tr)!=t.n_frames or not np.allclose(tr,fresh_traces(t.xyz),rtol=1e-4,atol=1e-6): return 'STALE-CACHE(len %d vs %d)'%(len(tr),t.n_frames)
        a=md.rmsd(t,t,0,precentered=True); b=md.rmsd(t,t,0)
        if not np.allclose(a,b,atol=1e-4): return 'rmsd-precentered'
    return None
lines=[l for l in open('oute.txt') if l.startswith('<<"TR"')]
random.seed(int(sys.argv[1]) if len(sys.argv)>1 else 0)
sample=random.sample(lines,6000)
res=collections.Counter(); first={}
t0=time.time()
for l in sample:
    hist=json.loads(json.loads(l[len('<<"TR", '):-3]))['hist']
    t,sh=base(); o={1:(t,sh)}
    verdict='ok'
    for k,s in enumerate(hist):
        op=s['op']
        try:
            if op=='index':
                T,S=o[s['src']]; key=key_of(s['idx'])
                nt=T[key]; ns=dict(xyz=S['xyz'][key].copy(),time=S['time'][key].copy(),L=None if S['L'] is None else S['L'][key].copy())
                for fld in ('xyz','time'):
                    if np.shares_memory(getattr(nt,fld),getattr(T,fld)): verdict='shares-'+fld
                o[s['dst']]=(nt,ns)
            elif op=='join':
                (T1,S1),(T2,S2)=o[s['x']],o[s['y']]
                nt=T1.join(T2); ns=dict(xyz=np.concatenate([S1['xyz'],S2['xyz']]),time=np.concatenate([S1['time'],S2['time']]),L=None if S1['L'] is None else np.concatenate([S1['L'],S2['L']]))
                o[s['dst']]=(nt,ns)
            elif op=='atom_slice':
                T,S=o[s['src']]; c=cols(s['cols'])
                if s['inplace']:
                    T.atom_slice(c,inplace=True); S['xyz']=S['xyz'][:,c].copy()
                else:
                    nt=T.atom_slice(c); ns=dict(xyz=S['xyz'][:,c].copy(),time=S['time'].copy(),L=None if S['L'] is None else S['L'].copy()); o[s['dst']]=(nt,ns)
            elif op=='center':
                T,S=o[s['x']]; T.center_coordinates(); S['xyz']=(S['xyz']-S['xyz'].astype(np.float64).mean(1,keepdims=True)).astype(np.float32)
        except Exception as ex:
            verdict='EXC:%s:%s'%(type(ex).__name__,str(ex)[:40])
        if verdict=='ok':
            for slot,(T,S) in o.items():
                r=check(T,S)
                if r: verdict=r; break
        if verdict!='ok':
            first.setdefault(verdict.split('(')[0],[ (h['op'],h.get('idx',h.get('cols',''))) for h in hist[:k+1]]); break
    res[verdict.split('(')[0]]+=1
print('time',round(time.time()-t0,1),'s',dict(res))
for k,v in first.items(): print(k,v)
