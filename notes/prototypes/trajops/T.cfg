SPECIFICATION Spec
CONSTANTS F = 3
 A = 2
 Obj = {1,2,3}
 D = 3
 FixSlice = FALSE
 FixAtomSliceInplace = TRUE
VIEW View
CONSTRAINT Bound
INVARIANT CacheSound
INVARIANT FieldLengths
