SPECIFICATION Spec
CONSTANTS F = 3
 A = 2
 Obj = {1,2,3}
 D = 3
 FixSlice = TRUE
 FixAtomSliceInplace = TRUE
VIEW View
ACTION_CONSTRAINT BoundedEmit
