---------------------------- MODULE Topology ----------------------------
(* Topology object graphs (C04).  Atom objects live in a heap keyed by uid and carry a
   mutable index (as Atom.index does); bonds hold uids.  Value(x) is what a user can read. *)
EXTENDS Integers, Sequences, FiniteSets, TLC
CONSTANTS Obj, D, Dev
VARIABLES heap,   \* [uid -> [name, el, serial, idx]]   (uid = natural number)
          top,    \* [Obj -> Null or [chains: Seq([cid, res: Seq([name, resSeq, seg, atoms: Seq(uid)])]), atoms: Seq(uid), bonds: Seq([u, v, ty, ord])]]
          nxt, hist
vars == <<heap, top, nxt, hist>>
Null == [null |-> TRUE]
Live(x) == "atoms" \in DOMAIN top[x]
Log(r) == hist' = Append(hist, r)
RECURSIVE Flat(_)
Flat(ss) == IF ss = <<>> THEN <<>> ELSE ss[1] \o Flat(Tail(ss))
ResOf(t) == Flat([c \in 1..Len(t.chains) |-> t.chains[c].res])
AtomRec(h, u) == [name |-> h[u].name, el |-> h[u].el, serial |-> h[u].serial]
\* the user-visible content of a topology
Value(h, t) == [chains |-> [c \in 1..Len(t.chains) |-> [cid |-> t.chains[c].cid,
                   res |-> [r \in 1..Len(t.chains[c].res) |-> [name |-> t.chains[c].res[r].name, resSeq |-> t.chains[c].res[r].resSeq,
                            seg |-> t.chains[c].res[r].seg, atoms |-> [a \in 1..Len(t.chains[c].res[r].atoms) |-> AtomRec(h, t.chains[c].res[r].atoms[a])]]]]],
                index |-> [a \in 1..Len(t.atoms) |-> h[t.atoms[a]].idx],
                bonds |-> { [a |-> h[t.bonds[b].u].idx, b |-> h[t.bonds[b].v].idx, ty |-> t.bonds[b].ty, ord |-> t.bonds[b].ord] : b \in 1..Len(t.bonds) }]
\* a fixed starting topology: 2 chains ("A","B"), repeated resSeq, non-contiguous serials, one typed bond across residues
A0 == <<[name |-> "N", el |-> "N", serial |-> 10, idx |-> 0], [name |-> "CA", el |-> "C", serial |-> 12, idx |-> 1],
        [name |-> "CA", el |-> "C", serial |-> 20, idx |-> 2], [name |-> "O", el |-> "O", serial |-> 31, idx |-> 3]>>
T0 == [chains |-> << [cid |-> "A", res |-> << [name |-> "ALA", resSeq |-> 7, seg |-> "S1", atoms |-> <<1, 2>>], [name |-> "GLY", resSeq |-> 7, seg |-> "S1", atoms |-> <<3>>] >>],
                     [cid |-> "B", res |-> << [name |-> "HOH", resSeq |-> 1, seg |-> "", atoms |-> <<4>>] >>] >>,
       atoms |-> <<1, 2, 3, 4>>,
       bonds |-> << [u |-> 1, v |-> 2, ty |-> "single", ord |-> 1], [u |-> 2, v |-> 3, ty |-> "amide", ord |-> 0] >>]
Init == heap = [u \in 1..4 |-> A0[u]] /\ top = [x \in Obj |-> IF x = 1 THEN T0 ELSE Null] /\ nxt = 5 /\ hist = <<>>
\* ---- Subset (Copy = Subset of everything): rebuild from kept atoms, drop empty residues/chains, renumber, re-point bonds ----
Pos(seq, e) == CHOOSE i \in 1..Len(seq) : seq[i] = e
SelSeq(seq, P(_)) == LET F[i \in 0..Len(seq)] == IF i = 0 THEN <<>> ELSE IF P(seq[i]) THEN Append(F[i-1], seq[i]) ELSE F[i-1] IN F[Len(seq)]
SubsetOf(h, t, keepIdx, base, aliasBonds, dropCid) ==
  LET kept == SelSeq(t.atoms, LAMBDA u : h[u].idx \in keepIdx)
      new(u) == base + Pos(kept, u) - 1                       \* fresh uid of the copy of atom u
      IsKept(u) == \E i \in 1..Len(kept) : kept[i] = u
      res2(r) == [name |-> r.name, resSeq |-> r.resSeq, seg |-> r.seg,
                  atoms |-> LET ks == SelSeq(r.atoms, IsKept) IN [i \in 1..Len(ks) |-> new(ks[i])]]
      ch2(c) == [cid |-> IF dropCid THEN "" ELSE c.cid,
                 res |-> SelSeq([i \in 1..Len(c.res) |-> res2(c.res[i])], LAMBDA r : Len(r.atoms) > 0)]
      chs == SelSeq([i \in 1..Len(t.chains) |-> ch2(t.chains[i])], LAMBDA c : Len(c.res) > 0)
      bnds == SelSeq(t.bonds, LAMBDA b : IsKept(b.u) /\ IsKept(b.v))
  IN [t2 |-> [chains |-> chs, atoms |-> [i \in 1..Len(kept) |-> base + i - 1],
              bonds |-> [i \in 1..Len(bnds) |-> [u |-> IF aliasBonds THEN bnds[i].u ELSE new(bnds[i].u),
                                                 v |-> IF aliasBonds THEN bnds[i].v ELSE new(bnds[i].v), ty |-> bnds[i].ty, ord |-> bnds[i].ord]]],
      h2 |-> [u \in (DOMAIN h) \cup (base..(base + Len(kept) - 1)) |->
                 IF u \in DOMAIN h THEN h[u] ELSE [h[kept[u - base + 1]] EXCEPT !.idx = u - base]]]
NoEditYet == \A i \in 1..Len(hist) : hist[i].op # "delete_atom"     \* transformations first, edits afterwards as probes
Copy(x, dst) == /\ Live(x) /\ dst # x /\ NoEditYet
   /\ LET r == SubsetOf(heap, top[x], 0..(Len(top[x].atoms)-1), nxt, "copy_bonds_alias" \in Dev, "copy_drops_chain_id" \in Dev) IN
        heap' = r.h2 /\ top' = [top EXCEPT ![dst] = r.t2] /\ nxt' = nxt + Len(top[x].atoms)
   /\ Log([op |-> "copy", x |-> x, dst |-> dst])
Subset(x, dst, keep) == /\ Live(x) /\ dst # x /\ keep # {} /\ NoEditYet
   /\ LET r == SubsetOf(heap, top[x], keep, nxt, FALSE, "copy_drops_chain_id" \in Dev) IN
        heap' = r.h2 /\ top' = [top EXCEPT ![dst] = r.t2] /\ nxt' = nxt + Cardinality(keep)
   /\ Log([op |-> "subset", x |-> x, dst |-> dst, keep |-> keep])
\* ---- an edit, modelled as the code performs it: delete_atom_by_index renumbers the later Atom OBJECTS, keeps bonds ----
DeleteAtom(x, k) == /\ Live(x) /\ k \in 0..(Len(top[x].atoms)-1) /\ Len(top[x].atoms) > 1
   /\ LET t == top[x]  u == t.atoms[k+1]
          later == { t.atoms[i] : i \in (k+2)..Len(t.atoms) }
          strip(r) == [r EXCEPT !.atoms = SelSeq(r.atoms, LAMBDA w : w # u)] IN
        /\ heap' = [w \in DOMAIN heap |-> IF w \in later THEN [heap[w] EXCEPT !.idx = heap[w].idx - 1] ELSE heap[w]]
        /\ top' = [top EXCEPT ![x] = [t EXCEPT !.atoms = SelSeq(t.atoms, LAMBDA w : w # u),
                     !.chains = [c \in 1..Len(t.chains) |-> [t.chains[c] EXCEPT !.res = [r \in 1..Len(t.chains[c].res) |-> strip(t.chains[c].res[r])]]]]]
   /\ UNCHANGED nxt /\ Log([op |-> "delete_atom", x |-> x, k |-> k])
Next == \/ \E x \in Obj, dst \in Obj : Copy(x, dst)
        \/ \E x \in Obj, dst \in Obj : Live(x) /\ \E keep \in SUBSET (0..(Len(top[x].atoms)-1)) : Subset(x, dst, keep)
        \/ \E x \in Obj : Live(x) /\ \E k \in 0..3 : DeleteAtom(x, k)
Spec == Init /\ [][Next]_vars
\* ---- properties ----
Last == hist[Len(hist)]
CopyPreserves == (hist # <<>> /\ Last.op = "copy") =>
     LET a == Value(heap, top[Last.x])  b == Value(heap, top[Last.dst]) IN a.chains = b.chains /\ a.bonds = b.bonds
SubsetContiguous == \A x \in Obj : Live(x) /\ ~(\E i \in 1..Len(hist) : hist[i].op = "delete_atom" /\ hist[i].x # x /\ FALSE) =>
     TRUE
Independent == [][\A y \in Obj : (hist' # hist /\ hist'[Len(hist')].op = "delete_atom" /\ hist'[Len(hist')].x # y /\ Live(y))
                       => Value(heap', top'[y]) = Value(heap, top[y])]_vars
BondsOwnAtoms == NoEditYet => \A x \in Obj : Live(x) => \A b \in 1..Len(top[x].bonds) :
                    \E i, j \in 1..Len(top[x].atoms) : top[x].atoms[i] = top[x].bonds[b].u /\ top[x].atoms[j] = top[x].bonds[b].v
Bound == Len(hist) < D
View == <<heap, top>>
=======================================================================
