SPECIFICATION Spec
CONSTANTS Obj = {1,2}
 D = 4
 Dev = {}
CONSTRAINT Bound
INVARIANT CopyPreserves
INVARIANT BondsOwnAtoms
PROPERTY Independent
CHECK_DEADLOCK FALSE
