SPECIFICATION Spec
CONSTANTS N = 3
 R = 1
INVARIANT SelfRoot
INVARIANT Symmetric
INVARIANT RotInvariant
INVARIANT RotatedIsZero
CHECK_DEADLOCK FALSE
