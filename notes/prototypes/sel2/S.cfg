SPECIFICATION Spec
INVARIANT DeMorgan
ACTION_CONSTRAINT Emit
CHECK_DEADLOCK FALSE
