import json, random, collections, sys, warnings
import mdtraj as md
warnings.simplefilter('ignore')
from mdtraj.core import element as E
top=md.Topology()
spec=[("N","N","ALA",5,0,"A"),("CA","C","ALA",5,0,"A"),("CB","C","ALA",5,0,"A"),("C","C","ALA",5,0,"A"),
      ("N","N","GLY",6,0,"A"),("CA","C","GLY",6,0,"A"),("O","O","HOH",5,1,"B"),("H1","H","HOH",5,1,"B"),("H2","H","HOH",5,1,"B"),("NA","Na","NA",7,1,"B")]
chains={}; res={}
for name,el,rn,rs,ch,seg in spec:
    if ch not in chains: chains[ch]=top.add_chain()
    key=(ch,rn,rs)
    if key not in res: res[key]=top.add_residue(rn,chains[ch],resSeq=rs,segment_id=seg)
    top.add_atom(name,E.get_by_symbol(el),res[key])
a=list(top.atoms)
for i,j in [(0,1),(1,2),(1,3),(3,4),(4,5),(6,7),(6,8)]: top.add_bond(a[i],a[j])
print([ (x.index,x.name,x.element.symbol,round(x.element.mass,3),x.residue.name,x.residue.index,x.residue.chain.index,x.residue.is_protein,x.residue.is_water,x.is_backbone,x.is_sidechain,x.n_bonds,x.residue.code) for x in top.atoms])
def render(t):
    if t['k']=='int':
        return str(t['n'])
    if t['k']=='str':
        return {'bare':t['s'],'single':"'%s'"%t['s'],'double':'"%s"'%t['s']}[t['q']]
    return t['s']
lines=[l for l in open('out.txt') if l.startswith('<<"TR"')]
random.seed(1); sample=random.sample(lines,5000)
cls=collections.Counter(); ex={}
for l in sample:
    rec=json.loads(json.loads(l[len('<<"TR", '):-3]))
    toks=rec['toks']; s=' '.join(render(t) for t in toks)
    massy = 'mass' in s
    if massy:  # mass literals are in milli-dalton in the spec
        s=' '.join((('%.3f'%(t['n']/1000.0)) if (t['k']=='int' and t['n']>100) else render(t)) for t in toks)
    try:
        got=sorted(int(i) for i in top.select(s)); r='ok' if got==sorted(rec['sel']) else 'WRONG'
    except Exception as e:
        r='EXC:'+type(e).__name__
    words=[t['s'] for t in toks if t['k']=='word']
    feat=(r, rec['shape'], tuple(sorted(set(w for w in words if w in('eq','ne','lt','le','gt','ge','&&','||','!','==','!=','<','<=','>','>=')))))
    cls[feat]+=1; ex.setdefault(feat,s)
tot=collections.Counter()
for (r,sh,ops),c in cls.items(): tot[r]+=c
print(tot)
bad=[(k,c) for k,c in cls.items() if k[0]!='ok']
bad.sort(key=lambda x:-x[1])
for k,c in bad[:25]: print(c,k,'|',ex[k])
