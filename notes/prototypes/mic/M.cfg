SPECIFICATION Spec
CONSTANTS MaxL = 3
 MaxS = 1
 R = 6
INVARIANT NeverBelow
INVARIANT ExactOrtho
INVARIANT ExactInRange
CHECK_DEADLOCK FALSE
