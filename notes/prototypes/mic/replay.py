import json, sys, time, random, collections, warnings
import numpy as np, mdtraj as md
warnings.simplefilter('ignore')
g=0.25
top=md.Topology(); ch=top.add_chain()
for i in range(2): top.add_atom('C',md.element.carbon,top.add_residue('X',ch))
lines=[l for l in open('oute.txt') if l.startswith('<<"TR"')]
random.seed(3); sample=random.sample(lines,40000)
recs=[json.loads(json.loads(l[len('<<"TR", '):-3])) for l in sample]
# pack all cases as frames of one trajectory with per-frame varying cells; atom 0 at a random lattice-shifted origin
rs=np.random.RandomState(0)
n=len(recs)
xyz=np.zeros((n,2,3),dtype=np.float64); box=np.zeros((n,3,3))
for k,r in enumerate(recs):
    cell=np.array(r['cell'],dtype=float); box[k]=cell*g
    o=rs.randint(-3,4,size=3)@cell + rs.randint(-2,3,size=3)          # origin anywhere (several cells away)
    sh=rs.randint(-2,3,size=3)@cell                                   # extra lattice shift of the second atom
    xyz[k,0]=o*g; xyz[k,1]=(o+np.array(r['r'])+sh)*g
t=md.Trajectory(xyz.astype(np.float32),top); t.unitcell_vectors=box.astype(np.float32)
t0=time.time()
res=collections.Counter(); first={}
for opt in (True,False):
    if not opt:
        sub=slice(0,3000)   # numpy path is slow
    else: sub=slice(None)
    tt=t[sub]; d=md.compute_distances(tt,[[0,1]],opt=opt)[:,0]; disp=md.compute_displacements(tt,[[0,1]],opt=opt)[:,0,:]
    for k,(r,dd,dv) in enumerate(zip(recs[sub],d,disp)):
        d2=(dd/g)**2
        ok_d = any(abs(d2-e)<=1e-3*(1+e) for e in r['d2'])
        plain=(xyz[k,1]-xyz[k,0])/g
        coef=np.linalg.solve(np.array(r['cell'],dtype=float).T,(dv/g-plain))
        ok_l = np.abs(coef-np.round(coef)).max()<1e-3
        ok_len = abs((dv/g)@(dv/g)-d2)<1e-3*(1+d2)
        key=('opt' if opt else 'np', 'ok' if (ok_d and ok_l and ok_len) else 'bad-%s%s%s'%('d' if not ok_d else '','L' if not ok_l else '','n' if not ok_len else ''))
        res[key]+=1
        if 'bad' in key[1]: first.setdefault(key,(r,float(d2),coef.tolist()))
print('time',round(time.time()-t0,1),dict(res))
for k,v in first.items(): print(k,v)
