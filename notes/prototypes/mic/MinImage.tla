---------------------------- MODULE MinImage ----------------------------
(* Minimum-image displacement on an integer lattice (C05).  Cells are lower
   triangular integer matrices (mdtraj's standard orientation). *)
EXTENDS Integers, Sequences, FiniteSets, TLC, Json
CONSTANTS MaxL, MaxS, R
Add(u,v) == <<u[1]+v[1], u[2]+v[2], u[3]+v[3]>>
Sub(u,v) == <<u[1]-v[1], u[2]-v[2], u[3]-v[3]>>
Mul(k,u) == <<k*u[1], k*u[2], k*u[3]>>
N2(u) == u[1]*u[1]+u[2]*u[2]+u[3]*u[3]
Abs(x) == IF x < 0 THEN -x ELSE x
FloorDiv(a,b) == IF a >= 0 THEN a \div b ELSE -((-a + b - 1) \div b)     \* b > 0
CeilDiv(a,b) == -FloorDiv(-a, b)
Rnd(a,b) == IF b > 0 THEN FloorDiv(2*a + b, 2*b) ELSE FloorDiv(-2*a - b, -2*b)   \* one nearest integer
Rounds(a,b) == LET bb == Abs(b)  aa == IF b > 0 THEN a ELSE -a  f == FloorDiv(2*aa + bb, 2*bb) IN
               IF (2*aa + bb) % (2*bb) = 0 THEN {f, f-1} ELSE {f}          \* both neighbours on a tie
MinOf(S) == CHOOSE m \in S : \A s \in S : m <= s
Isqrt(n) == CHOOSE s \in 0..(n+1) : s*s <= n /\ (s+1)*(s+1) > n
\* --- the kernel as written in geometry.cpp / distance.py ---
Reduce(cell) == LET a == cell[1] b == cell[2] c == cell[3]
                    c1 == Sub(c, Mul(Rnd(c[2], b[2]), b))
                    c2 == Sub(c1, Mul(Rnd(c1[1], a[1]), a))
                    b2 == Sub(b, Mul(Rnd(b[1], a[1]), a))
                IN <<a, b2, c2>>
WrapSet(r, cell) == LET a == cell[1] b == cell[2] c == cell[3] IN
   UNION { LET r1 == Sub(r, Mul(kc,c)) IN
           UNION { LET r2 == Sub(r1, Mul(kb,b)) IN { Sub(r2, Mul(ka,a)) : ka \in Rounds(r2[1], a[1]) }
                   : kb \in Rounds(r1[2], b[2]) }
           : kc \in Rounds(r[3], c[3]) }
Images27(w, cell) == { Add(w, Add(Mul(i,cell[1]), Add(Mul(j,cell[2]), Mul(k,cell[3])))) : i \in -1..1, j \in -1..1, k \in -1..1 }
AlgoTri(r, cell) == LET rc == Reduce(cell) IN { MinOf({ N2(x) : x \in Images27(w, rc) }) : w \in WrapSet(r, rc) }
AlgoOrtho(r, cell) == { N2(<<r[1]-k1*cell[1][1], r[2]-k2*cell[2][2], r[3]-k3*cell[3][3]>>) :
                          k1 \in Rounds(r[1], cell[1][1]), k2 \in Rounds(r[2], cell[2][2]), k3 \in Rounds(r[3], cell[3][3]) }
Orthogonal(cell) == cell[2][1] = 0 /\ cell[3][1] = 0 /\ cell[3][2] = 0
Algo(r, cell) == IF Orthogonal(cell) THEN AlgoOrtho(r, cell) ELSE AlgoTri(r, cell)
\* --- the definition: true minimum over the whole lattice (bounded Fincke-Pohst) ---
TrueMin2(r, cell) ==
  LET a == cell[1] b == cell[2] c == cell[3]
      k3 == Rnd(r[3], c[3])  r1 == Sub(r, Mul(k3, c))
      k2 == Rnd(r1[2], b[2]) r2 == Sub(r1, Mul(k2, b))
      k1 == Rnd(r2[1], a[1]) r3 == Sub(r2, Mul(k1, a))
      U == N2(r3)  s == Isqrt(U)
      Z == { k \in FloorDiv(r[3]-s, c[3])..CeilDiv(r[3]+s, c[3]) : (r[3]-k*c[3])*(r[3]-k*c[3]) <= U }
  IN MinOf( { U } \cup UNION { LET p == Sub(r, Mul(kz, c))  Uy == U - p[3]*p[3]  sy == Isqrt(Uy) IN
        UNION { LET q == Sub(p, Mul(ky, b))  Ux == Uy - q[2]*q[2]  sx == Isqrt(Ux) IN
                { N2(Sub(q, Mul(kx, a))) : kx \in FloorDiv(q[1]-sx, a[1])..CeilDiv(q[1]+sx, a[1]) }
              : ky \in { k \in FloorDiv(p[2]-sy, b[2])..CeilDiv(p[2]+sy, b[2]) : (p[2]-k*b[2])*(p[2]-k*b[2]) <= Uy } }
      : kz \in Z } )
MinWidth(cell) == MinOf({cell[1][1], cell[2][2], cell[3][3]})   \* for lower-triangular cells the three widths are >= these... see note
Cells == { <<<<ax,0,0>>, <<bx,by,0>>, <<cx,cy,cz>>>> : ax \in 2..MaxL, by \in 2..MaxL, cz \in 2..MaxL, bx \in -MaxS..MaxS, cx \in -MaxS..MaxS, cy \in -MaxS..MaxS }
VARIABLES cell, r, ph
Init == cell \in Cells /\ r = <<0,0,0>> /\ ph = 0
Next == ph = 0 /\ ph' = 1 /\ cell' = cell /\ r' \in {<<x,y,z>> : x \in -R..R, y \in -R..R, z \in -R..R}
Spec == Init /\ [][Next]_<<cell,r,ph>>
NeverBelow == \A d \in Algo(r, cell) : d >= TrueMin2(r, cell)
ExactOrtho == Orthogonal(cell) => Algo(r, cell) = {TrueMin2(r, cell)}
ExactInRange == (4*TrueMin2(r,cell) < MinWidth(Reduce(cell))*MinWidth(Reduce(cell))) => Algo(r,cell) = {TrueMin2(r,cell)}
Emit == PrintT(<<"TR", ToJson([cell |-> cell', r |-> r', d2 |-> Algo(r', cell'), tmin |-> TrueMin2(r', cell'),
                                inrange |-> (4*TrueMin2(r',cell') < MinWidth(Reduce(cell'))*MinWidth(Reduce(cell')))])>>)
=======================================================================
