SPECIFICATION Spec
CONSTANTS MaxL = 3
 MaxS = 1
 R = 5
ACTION_CONSTRAINT Emit
CHECK_DEADLOCK FALSE
