import sys, os, json, warnings
import numpy as np, mdtraj as md
warnings.simplefilter('ignore')
fmt, fn, plan = sys.argv[1], sys.argv[2], json.loads(sys.argv[3])
NA=11
def frames(lo,hi):
    x=np.zeros((hi-lo,NA,3),dtype=np.float32)
    for k,f in enumerate(range(lo,hi)): x[k,:,0]=f+1; x[k,:,1]=np.arange(NA)*0.5
    return x
f=md.open(fn,'w'); nxt=0
for step in plan:
    if step[0]=='write':
        k=step[1]; x=frames(nxt,nxt+k); nxt+=k
        L=np.ones((k,3),dtype=np.float32)*30; A=np.ones((k,3),dtype=np.float32)*90
        if fmt in('h5','nc'): f.write(x,time=np.arange(k,dtype=np.float32),cell_lengths=L,cell_angles=A)
        elif fmt=='dcd': f.write(x,cell_lengths=L,cell_angles=A)
        elif fmt in ('xtc','trr'): f.write(x,time=np.arange(k,dtype=np.float32),box=np.tile(np.eye(3,dtype=np.float32)*30,(k,1,1)))
    elif step[0]=='flush':
        if hasattr(f,'flush'): f.flush()
    elif step[0]=='crash': os._exit(0)
    elif step[0]=='close': f.close()
