import subprocess, json, os, time, itertools, warnings, sys
import numpy as np, mdtraj as md
warnings.simplefilter('ignore')
top=md.Topology(); ch=top.add_chain()
for i in range(11): top.add_atom('CA',md.element.carbon,top.add_residue('ALA',ch))
plans=[]
for comp in [(2,),(1,2),(2,1,1)]:
    for crash_after in range(len(comp)+1):
        for flush in (True,False):
            p=[]
            for i,k in enumerate(comp):
                if i==crash_after: break
                p.append(['write',k]); 
                if flush: p.append(['flush'])
            p.append(['crash'] if crash_after<len(comp) else ['close'])
            plans.append((comp,crash_after,flush,p))
t0=time.time(); n=0
for fmt in ['h5','nc','dcd','xtc','trr']:
    out=[]
    for comp,ca,fl,p in plans:
        fn=f'/tmp/proto/crash/c.{fmt}'
        if os.path.exists(fn): os.unlink(fn)
        subprocess.run(['/venv/bin/python','child.py',fmt,fn,json.dumps(p)],timeout=60); n+=1
        written=sum(s[1] for s in p if s[0]=='write')
        try:
            t=md.load(fn,top=top) if fmt!='h5' else md.load(fn)
            got=t.n_frames
        except Exception as ex: got='ERR:'+type(ex).__name__
        if got!=written: out.append((comp,ca,'flush' if fl else 'noflush',written,got))
    print(fmt,'mismatches:',out)
print('runs',n,'time',round(time.time()-t0,1))
