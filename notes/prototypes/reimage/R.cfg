SPECIFICATION Spec
CONSTANTS L = 8
 NAt = 3
INVARIANT LatticeMoves
INVARIANT BondsWhole
CHECK_DEADLOCK FALSE
