---------------------------- MODULE Reimage ----------------------------
(* make_molecules_whole on an integer lattice (C11): the bond walk of
   image_molecules.pxi:make_whole, modelled step by step (1-D suffices to show order sensitivity;
   the built module is 3-D and triclinic via MinImage). *)
EXTENDS Integers, Sequences, FiniteSets, TLC
CONSTANTS L, NAt
BondLists == { << <<1,2>>, <<2,3>> >>, << <<1,2>>, <<1,3>> >>, << <<1,3>>, <<2,3>> >> }   \* candidate sorted bond sequences (first atom ascending)
Abs(x) == IF x < 0 THEN -x ELSE x
FloorDiv(a,b) == IF a >= 0 THEN a \div b ELSE -((-a + b - 1) \div b)
Rounds(a,b) == LET f == FloorDiv(2*a + b, 2*b) IN IF (2*a + b) % (2*b) = 0 THEN {f, f-1} ELSE {f}
MinImg(d) == LET k == FloorDiv(2*d + L, 2*L) IN Abs(d - k*L)
VARIABLES pos0, pos, bonds, k
vars == <<pos0, pos, bonds, k>>
Init == /\ bonds \in BondLists /\ k = 0
        /\ pos0 \in [1..NAt -> 0..(3*L-1)] /\ pos = pos0
\* one step of the walk: move atom2 of the k-th bond next to atom1 (any admissible rounding)
Step == /\ k < Len(bonds) /\ k' = k + 1
        /\ LET a1 == bonds[k+1][1]  a2 == bonds[k+1][2]  d == pos[a2] - pos[a1] IN
           \E m \in Rounds(d, L) : pos' = [pos EXCEPT ![a2] = pos[a2] - m*L]
        /\ UNCHANGED <<pos0, bonds>>
Next == Step
Spec == Init /\ [][Next]_vars
Done == k = Len(bonds)
\* molecule short enough: every bonded pair truly closer than L/2 (spec guard)
\* molecule compact: some choice of images puts all atoms inside a window shorter than L/2 (spec guard)
Short == \E sh \in [1..NAt -> -3..3] : \A a, b \in 1..NAt : 2 * Abs((pos0[a] + sh[a]*L) - (pos0[b] + sh[b]*L)) < L
LatticeMoves == \A a \in 1..NAt : (pos[a] - pos0[a]) % L = 0
BondsWhole == (Done /\ Short) => \A i \in 1..Len(bonds) : Abs(pos[bonds[i][1]] - pos[bonds[i][2]]) = MinImg(pos0[bonds[i][1]] - pos0[bonds[i][2]])
=======================================================================
