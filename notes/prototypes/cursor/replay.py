import json, sys, os, time, shutil, warnings, collections
import numpy as np, mdtraj as md
warnings.simplefilter('ignore')
N=3; NA=11
top=md.Topology(); ch=top.add_chain()
for i in range(NA): top.add_atom('CA',md.element.carbon,top.add_residue('ALA',ch))
xyz=np.zeros((N,NA,3),dtype=np.float32)
for f in range(N): xyz[f,:,0]=(f+1)*0.1; xyz[f,:,1]=np.arange(NA)*0.05
t=md.Trajectory(xyz,top,time=np.arange(N)*1.0,unitcell_lengths=np.ones((N,3))*5,unitcell_angles=np.ones((N,3))*90)
os.makedirs('/tmp/proto/cursor/files',exist_ok=True)
fmts=sys.argv[2].split(',')
scale={'h5':1,'xtc':1,'trr':1}
for e in fmts:
    fn=f'/tmp/proto/cursor/files/t.{e}'
    if os.path.isdir(fn): shutil.rmtree(fn)
    elif os.path.exists(fn): os.unlink(fn)
    t.save(fn)
def ids(r,e):
    a = r.coordinates if hasattr(r,'coordinates') else (r[0] if isinstance(r,tuple) else r)
    a=np.asarray(a)
    if a.size==0: return []
    return [int(round(float(v)*(10 if e in scale else 1)))-1 for v in a[:,0,0]]
tests=[json.loads(json.loads(l[len('<<"TR", '):-3]))['hist'] for l in open(sys.argv[1]) if l.startswith('<<"TR"')]
print(len(tests),'tests')
res=collections.Counter(); first={}
t0=time.time()
for e in fmts:
    fn=f'/tmp/proto/cursor/files/t.{e}'; kw={'n_atoms':NA} if e=='mdcrd' else {}
    haslen = e not in ('mdcrd','lammpstrj')
    for hist in tests:
        if not haslen and any(s['op']=='len' for s in hist): continue
        hs={1:md.open(fn,**kw),2:md.open(fn,**kw)}
        ok=True
        for k,s in enumerate(hist):
            f=hs[s['h']]
            try:
                if s['op']=='read': got=ids(f.read(s['arg']),e); exp=s['ret']
                elif s['op']=='seek': f.seek(s['arg']); got=exp=None
                elif s['op']=='seekrel': f.seek(s['arg'],1); got=exp=None
                elif s['op']=='tell': got=f.tell(); exp=s['ret']
                elif s['op']=='len': got=len(f); exp=s['ret']
                pos=f.tell()
            except Exception as ex:
                got='EXC:'+type(ex).__name__; exp=None; pos=None
            if got!=exp or pos!=s['pos']:
                ok=False; key=(e,s['op']); res[key]+=1
                first.setdefault(key,(hist[:k+1],got,pos)); break
        for f in hs.values(): f.close()
        res[(e,'ok' if ok else 'bad')]+=1
print('time',round(time.time()-t0,1),'s')
for e in fmts: print(e, res[(e,'ok')], res[(e,'bad')], {k[1]:v for k,v in res.items() if k[0]==e and k[1] not in('ok','bad')})
for k,v in list(first.items())[:6]: print(k, json.dumps(v[0][-3:]), 'got',v[1],'pos',v[2])
