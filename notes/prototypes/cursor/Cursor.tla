---------------------------- MODULE Cursor ----------------------------
(* An open trajectory file as a cursor over N frames (property C18), plus the
   strided read contract used by Loader (C02).  Frames are identified 0..N-1. *)
EXTENDS Integers, Sequences, FiniteSets, TLC, Json
CONSTANTS N,          \* number of frames in the file
          Handles,    \* set of handle ids
          D,          \* history depth bound (exploration only)
          HasLen,     \* capability: __len__ offered
          Dev         \* set of enabled named deviations (empty = the property)
VARIABLES pos,        \* [Handles -> 0..] logical position
          lenSeen,    \* [Handles -> BOOLEAN] latent: len()/seek already consulted the offsets cache
          eofHits,    \* [Handles -> Nat] only used by deviation "trr_eof_overcount"
          hist        \* sequence of [h, op, arg, ret, pos] records (observation only)
vars == <<pos, lenSeen, eofHits, hist>>
Min(a,b) == IF a < b THEN a ELSE b
Ids(lo, hi) == [i \in 1..(hi-lo) |-> lo + i - 1]        \* frames lo..hi-1 as a sequence
Log(h, op, arg, ret, p) == hist' = Append(hist, [h |-> h, op |-> op, arg |-> arg, ret |-> ret, pos |-> p])

Init == /\ pos = [h \in Handles |-> 0] /\ lenSeen = [h \in Handles |-> FALSE]
        /\ eofHits = [h \in Handles |-> 0] /\ hist = <<>>

\* --- the property's meaning ------------------------------------------------
IdealRead(h, n) == LET stop == Min(pos[h] + n, N) IN
    /\ pos' = [pos EXCEPT ![h] = stop]
    /\ Log(h, "read", n, Ids(pos[h], stop), stop)
    /\ UNCHANGED <<lenSeen, eofHits>>
\* --- what the code is known to do instead (named deviations) ----------------
NcRead(h, n) == LET start == Min(pos[h], N)  stop == Min(pos[h] + n, N)
                    adv == IF pos[h] >= N THEN pos[h] ELSE pos[h] + Min(n, N) IN   \* adds request/total
    /\ pos' = [pos EXCEPT ![h] = adv]
    /\ Log(h, "read", n, Ids(start, IF stop < start THEN start ELSE stop), adv)
    /\ UNCHANGED <<lenSeen, eofHits>>
Read(h, n) == IF "nc_advance_by_request" \in Dev THEN NcRead(h, n) ELSE IdealRead(h, n)
ReadAll(h) == Read(h, N + 1)      \* read(): everything that remains
Seek(h, k) == /\ k \in 0..(N-1)
              /\ pos' = [pos EXCEPT ![h] = k] /\ lenSeen' = [lenSeen EXCEPT ![h] = TRUE]
              /\ Log(h, "seek", k, "none", k) /\ UNCHANGED eofHits
SeekRel(h, d) == /\ pos[h] + d \in 0..(N-1)
                 /\ pos' = [pos EXCEPT ![h] = pos[h] + d] /\ lenSeen' = [lenSeen EXCEPT ![h] = TRUE]
                 /\ Log(h, "seekrel", d, "none", pos[h] + d) /\ UNCHANGED eofHits
Tell(h) == /\ Log(h, "tell", "none", pos[h], pos[h]) /\ UNCHANGED <<pos, lenSeen, eofHits>>
LenOp(h) == /\ HasLen /\ lenSeen' = [lenSeen EXCEPT ![h] = TRUE]
            /\ Log(h, "len", "none", N, pos[h]) /\ UNCHANGED <<pos, eofHits>>
Next == \E h \in Handles :
          \/ \E n \in 1..(N+1) : Read(h, n)
          \/ \E k \in 0..(N-1) : Seek(h, k)
          \/ \E d \in (-N)..N : d # 0 /\ SeekRel(h, d)
          \/ Tell(h) \/ LenOp(h)
Spec == Init /\ [][Next]_vars
\* --- properties ---------------------------------------------------------------
PosRange == \A h \in Handles : pos[h] \in 0..N
Last == hist[Len(hist)]
ReadIsNext == hist # <<>> /\ Last.op = "read" =>
                 /\ Len(Last.ret) = Min(Last.arg, N - (Last.pos - Len(Last.ret)))
                 /\ \A i \in 1..Len(Last.ret) : Last.ret[i] = Last.pos - Len(Last.ret) + i - 1
HandlesIndependent == [][\A h \in Handles : (hist' # hist /\ hist'[Len(hist')].h # h) => pos'[h] = pos[h]]_vars
\* --- exploration / export ---------------------------------------------------
View == <<pos, lenSeen>>
Bound == Len(hist) < D
Emit == PrintT(<<"TR", ToJson([hist |-> hist'])>>)
EmitLast == Len(hist) < D /\ (Len(hist') = D => PrintT(<<"TR", ToJson([hist |-> hist'])>>))
=======================================================================
