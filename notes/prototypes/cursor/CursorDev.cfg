SPECIFICATION Spec
CONSTANTS N = 3
 Handles = {1, 2}
 D = 5
 HasLen = TRUE
 Dev = {"nc_advance_by_request"}
VIEW View
CONSTRAINT Bound
ACTION_CONSTRAINT Emit
