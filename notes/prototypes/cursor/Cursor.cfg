SPECIFICATION Spec
CONSTANTS N = 3
 Handles = {1, 2}
 D = 5
 HasLen = TRUE
 Dev = {}
VIEW View
CONSTRAINT Bound
ACTION_CONSTRAINT Emit
INVARIANT PosRange
INVARIANT ReadIsNext
PROPERTY HandlesIndependent
