SPECIFICATION Spec
CONSTANTS N = 6
 Handles = {1, 2}
 D = 25
 HasLen = TRUE
 Dev = {}
ACTION_CONSTRAINT EmitLast
INVARIANT PosRange
