import mdtraj as md, numpy as np, os, warnings, shutil, hashlib, glob
warnings.simplefilter('ignore')
def mk(n):
    top = md.Topology(); ch = top.add_chain()
    for i in range(n):
        r = top.add_residue('ALA', ch); top.add_atom('CA', md.element.carbon, r)
    return top
top=mk(5)
def traj(n):
    x=np.random.RandomState(0).rand(n,5,3).astype(np.float32)
    return md.Trajectory(x,top,unitcell_lengths=np.ones((n,3))*3,unitcell_angles=np.ones((n,3))*90)
def rm(fn):
    for p in glob.glob(fn+'*'):
        if os.path.isdir(p): shutil.rmtree(p)
        else: os.unlink(p)
def sha(fn):
    if os.path.isdir(fn):
        h=hashlib.sha256()
        for root,d,files in sorted(os.walk(fn)):
            for f in sorted(files):
                h.update(f.encode()); h.update(open(os.path.join(root,f),'rb').read())
        return h.hexdigest()[:8]
    return hashlib.sha256(open(fn,'rb').read()).hexdigest()[:8]
exts=['xtc','trr','pdb','pdb.gz','dcd','h5','nc','netcdf','ncdf','ncrst','crd','mdcrd','lammpstrj','xyz','xyz.gz','gro','rst7','dtr']
for e in exts:
    fn=f'/tmp/probe/o.{e}'; rm(fn)
    out=[]
    for pre in ['junk','valid']:
        rm(fn)
        if pre=='junk':
            if e=='dtr': os.mkdir(fn); open(fn+'/x','w').write('junk')
            else: open(fn,'wb').write(b'JUNK'*100)
        else:
            try: traj(1 if e in('ncrst','rst7') else 4).save(fn)
            except Exception as ex: out.append(('presave',repr(ex)[:40])); continue
        h0=sha(fn)
        try:
            traj(1).save(fn, force_overwrite=False); r='NOERR'
        except Exception as ex: r=type(ex).__name__
        out.append((pre,'save',r, 'same' if sha(fn)==h0 else 'CHANGED'))
        try:
            f=md.open(fn,'w',force_overwrite=False); r='NOERR'; 
            try: f.close()
            except: pass
        except Exception as ex: r=type(ex).__name__
        out.append((pre,'open',r, 'same' if os.path.exists(fn) and sha(fn)==h0 else 'CHANGED'))
    # multi-frame restart numbered
    print(e,out)
for e in ['rst7','ncrst']:
    fn=f'/tmp/probe/m.{e}'; rm(fn)
    open(fn+'.2','wb').write(b'JUNK')
    try: traj(3).save(fn,force_overwrite=False); r='NOERR'
    except Exception as ex: r=type(ex).__name__
    print(e,'multi',r, open(fn+'.2','rb').read()[:4], sorted(glob.glob(fn+'*')))
# overwrite longer file with shorter
for e in ['xtc','trr','dcd','h5','nc','mdcrd','xyz','lammpstrj','gro','pdb','dtr','xyz.gz','pdb.gz']:
    fn=f'/tmp/probe/l.{e}'; rm(fn)
    traj(6).save(fn); traj(2).save(fn,force_overwrite=True)
    t=md.load(fn,top=top) if e not in('h5','pdb','gro','pdb.gz') else md.load(fn)
    print(e,'after overwrite n_frames',t.n_frames)
