import mdtraj as md, numpy as np, warnings, itertools
warnings.simplefilter('ignore')
rs=np.random.RandomState(1)
def mk(n):
    top = md.Topology(); ch = top.add_chain()
    for i in range(n):
        r = top.add_residue('ALA', ch); top.add_atom('CA', md.element.carbon, r)
    return top
def brute(xyz,box,pairs,K=6):
    out=[]
    rng=np.arange(-K,K+1)
    shifts=np.array([i*box[0]+j*box[1]+k*box[2] for i in rng for j in rng for k in rng])
    for a,b in pairs:
        d=xyz[b]-xyz[a]
        out.append(np.sqrt(((d+shifts)**2).sum(1).min()))
    return np.array(out)
n=12; top=mk(n)
cells={'cubic':np.eye(3)*2.0,'ortho':np.diag([2.,3.,4.]),
 'mono':np.array([[2,0,0],[0,3,0],[1.0,0,2.5]]),
 'hex':np.array([[2,0,0],[-1,np.sqrt(3),0],[0,0,3.]]),
 'hex60':np.array([[2,0,0],[1,np.sqrt(3),0],[0,0,3.]]),
 'truncoct':np.array([[3,0,0],[-1,2.8284271,0],[-1,-1.4142136,2.4494897]]),
 'rhombdod':np.array([[3,0,0],[0,3,0],[1.5,1.5,2.1213203]]),
 'tri':np.array([[2.5,0,0],[0.9,2.2,0],[-0.7,0.8,2.0]]),
 'unreduced':np.array([[2.0,0,0],[1.7,2.0,0],[1.5,-1.6,2.0]])}
pairs=np.array(list(itertools.combinations(range(n),2)))
for name,box in cells.items():
    for spread in [1.0, 8.0]:
        xyz=(rs.rand(1,n,3)-0.5)*spread*2
        t=md.Trajectory(xyz.astype(np.float32),top); t.unitcell_vectors=box[None].astype(np.float32)
        bx=t.unitcell_vectors[0].astype(np.float64)
        bf=brute(t.xyz[0].astype(np.float64),bx,pairs)
        widths = np.abs(np.linalg.det(bx))/np.array([np.linalg.norm(np.cross(bx[1],bx[2])),np.linalg.norm(np.cross(bx[0],bx[2])),np.linalg.norm(np.cross(bx[0],bx[1]))])
        half=widths.min()/2
        res={}
        for opt in [True,False]:
            d=md.compute_distances(t,pairs,opt=opt)[0]
            m = bf<half
            res[opt]=(np.abs(d-bf)[m].max() if m.any() else 0, (d-bf).min(), np.abs(d-bf).max())
        # neighbors vs distances
        cutoff=half*0.95
        nb=md.compute_neighbors(t,cutoff,[0])[0]
        d0=md.compute_distances(t,[[0,j] for j in range(1,n)])[0]
        exp=[j for j in range(1,n) if bf[[i for i,(a,b) in enumerate(pairs) if a==0 and b==j][0]]<cutoff]
        nl=md.compute_neighborlist(t,cutoff)
        expnl=[sorted([j for j in range(n) if j!=i and bf[[k for k,(a,b) in enumerate(pairs) if (a,b)==(min(i,j),max(i,j))][0]]<cutoff]) for i in range(n)]
        nlbad=sum(1 for i in range(n) if sorted(nl[i])!=expnl[i])
        fcc=md.find_closest_contact(t,[0,1,2],[3,4,5,6])
        bfc=min(bf[[k for k,(a,b) in enumerate(pairs) if (a,b)==(i,j)][0]] for i in [0,1,2] for j in [3,4,5,6])
        print(f'{name:10s} spread={spread} opt:{res[True][0]:.2e} min(d-bf)={res[True][1]:.2e} maxall={res[True][2]:.2e} | np:{res[False][0]:.2e} | neigh ok={sorted(nb)==exp} nlbad={nlbad} fcc={fcc[2]:.4f} vs {bfc:.4f}')
