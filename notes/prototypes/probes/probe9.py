import mdtraj as md, numpy as np, warnings
warnings.simplefilter('ignore')
def mk(n, bonds=()):
    top = md.Topology(); ch = top.add_chain(); r = top.add_residue('LIG', ch)
    ats=[top.add_atom('C%d'%i, md.element.carbon, r) for i in range(n)]
    for a,b in bonds: top.add_bond(ats[a],ats[b])
    return top
# ---- C17 naming: cell with three different angles
t=md.Trajectory(np.zeros((1,1,3),dtype=np.float32), mk(1))
t.unitcell_lengths=np.array([[2.,3.,4.]]); t.unitcell_angles=np.array([[70.,80.,100.]])
V=t.unitcell_vectors[0]
a,b,c=V
ang=lambda u,v: np.degrees(np.arccos(u@v/np.linalg.norm(u)/np.linalg.norm(v)))
print('C17 lengths',[round(float(np.linalg.norm(x)),4) for x in V],'alpha(b,c)',round(ang(b,c),3),'beta(c,a)',round(ang(c,a),3),'gamma(a,b)',round(ang(a,b),3), 'orient',V[0,1],V[0,2],V[1,2], 'vol',t.unitcell_volumes, np.linalg.det(V))
# rotated description
Q,_=np.linalg.qr(np.random.RandomState(0).randn(3,3)); Q*=np.sign(np.linalg.det(Q))
t2=md.Trajectory(np.zeros((1,1,3),dtype=np.float32), mk(1)); t2.unitcell_vectors=(V@Q.T)[None].astype(np.float32)
print('   rotated ->',t2.unitcell_lengths, t2.unitcell_angles, t2.unitcell_vectors[0].round(4).tolist())
t2.unitcell_angles=None
print('   half-set: have',t2._have_unitcell, 'vectors',t2.unitcell_vectors, 'lengths',t2.unitcell_lengths is not None)
try: print('   slice of half-set', t2[0].unitcell_lengths is not None, t2[0].unitcell_angles)
except Exception as e: print('   slice EXC',e)
try: print('   volumes of half-set', t2.unitcell_volumes)
except Exception as e: print('   volumes EXC',type(e).__name__, e)
# ---- C11 bond order: chain 0-2-1 i.e. bonds (0,2),(1,2)
top=mk(3,[(0,2),(1,2)])
L=4.0
xyz=np.array([[[0.2,0.2,0.2],[0.2+0.3+L,0.2,0.2],[0.2+0.15-L,0.2,0.2]]],dtype=np.float32)  # true geometry 0 - 2 - 1 along x spaced .15, images scrambled
t=md.Trajectory(xyz,top,unitcell_lengths=[[L,L,L]],unitcell_angles=[[90,90,90]])
w=t.make_molecules_whole()
print('C11 whole',w.xyz[0,:,0], 'bond02',abs(w.xyz[0,0,0]-w.xyz[0,2,0]),'bond12',abs(w.xyz[0,1,0]-w.xyz[0,2,0]), 'input unchanged',np.array_equal(t.xyz,xyz))
# ---- C13 counts
t=md.load('/repo/tests/data/frame0.h5')[0]
n=960
out=md.shrake_rupley(t,n_sphere_points=n)[0]
from mdtraj.geometry.sasa import _ATOMIC_RADII
r=np.array([_ATOMIC_RADII[a.element.symbol] for a in t.top.atoms])+0.14
cnt=out/(4*np.pi/n*r*r)
print('C13 count frac dev max',np.abs(cnt-np.round(cnt)).max())
tt=md.load('/repo/tests/data/frame0.h5')[:3]
o3=md.shrake_rupley(tt,n_sphere_points=n)
o1=np.vstack([md.shrake_rupley(tt[i],n_sphere_points=n) for i in range(3)])
import os
print('C13 multi vs single max rel diff',np.abs(o3-o1).max()/o1.max(), 'threads', os.environ.get('OMP_NUM_THREADS'))
# ---- C15 kabsch_sander orientation
t=md.load('/repo/tests/data/2EQQ.pdb')[0] if os.path.exists('/repo/tests/data/2EQQ.pdb') else md.load('/repo/tests/data/native.pdb')
ks=md.kabsch_sander(t)[0].tocoo()
print('C15 ks entries',list(zip(ks.row[:6],ks.col[:6],ks.data[:6].round(2))), 'dssp',''.join(md.compute_dssp(t,simplified=False)[0][:40]))
