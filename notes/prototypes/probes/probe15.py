import mdtraj as md, numpy as np, warnings
warnings.simplefilter('ignore')
from mdtraj.geometry.hbond import _prep_kabsch_sander_arrays
def ks_oracle(t,f):
    xyz,nco,ca,pro,isprot=_prep_kabsch_sander_arrays(t)   # index bookkeeping only
    X=t.xyz[f].astype(np.float64); n=len(ca)
    skip=[not p for p in isprot]
    H=np.full((n,3),np.nan)
    H[0]=X[nco[0,0]] if not skip[0] else np.nan
    for i in range(1,n):
        if skip[i] or skip[i-1]: continue
        c=X[nco[i-1,1]]; o=X[nco[i-1,2]]; u=(c-o)/np.linalg.norm(c-o); H[i]=X[nco[i,0]]+0.1*u
    best={}   # donor -> list of (E, acceptor)
    near=0
    def energy(d,a):
        N=X[nco[d,0]]; Hh=H[d]; C=X[nco[a,1]]; O=X[nco[a,2]]
        # integer-bracket arithmetic: r in 1e-4 nm units, terms 1e8 // r
        rs=[np.linalg.norm(Hh-O),np.linalg.norm(N-C),np.linalg.norm(Hh-C),np.linalg.norm(N-O)]
        e=2.7888*(-1/rs[0]-1/rs[1]+1/rs[2]+1/rs[3])   # coupling(-,-,+,+) over (HO,NC,HC,NO)
        return max(e,-9.9)
    for i in range(n):
        if skip[i]: continue
        for j in range(i+1,n):
            if skip[j]: continue
            if np.sum((X[ca[i]]-X[ca[j]])**2) < 0.81:
                for d,a in ((i,j),(j,i)):
                    if d==a+1 or np.isnan(H[d]).any(): continue    # rj != ri+1 rule: donor j=i+1 with acceptor i skipped
                    if pro[d]: continue
                    e=energy(d,a)
                    if abs(e+0.5)<1e-3: near+=1
                    if e<-0.5: best.setdefault(d,[]).append((e,a))
    pairs=set()
    for d,l in best.items():
        l.sort()
        for e,a in l[:2]: pairs.add((d,a))
    return pairs,near
for fn in ['/repo/tests/data/2EQQ.pdb','/repo/tests/data/1bpi.pdb','/repo/tests/data/1vii.pdb','/repo/tests/data/bpti.pdb']:
    t=md.load(fn)
    for f in range(min(t.n_frames,2)):
        m=md.kabsch_sander(t[f])[0].tocoo(); got={(int(c),int(r)) for r,c in zip(m.row,m.col)}
        exp,near=ks_oracle(t,f)
        print(fn.split('/')[-1],f,'impl',len(got),'oracle',len(exp),'only impl',sorted(got-exp)[:4],'only oracle',sorted(exp-got)[:4],'near',near)
