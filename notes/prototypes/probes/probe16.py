import mdtraj as md, numpy as np, hashlib, warnings, sys, itertools
warnings.simplefilter('ignore')
t=md.load('/repo/tests/data/frame0.h5')[:9]
p=md.load('/repo/tests/data/2EQQ.pdb')[:6]
def h(a): return hashlib.sha1(np.ascontiguousarray(a).tobytes()).hexdigest()[:8]
pairs=np.array(list(itertools.combinations(range(10),2)))
out={}
out['dist']=h(md.compute_distances(t,pairs)); out['ang']=h(md.compute_angles(t,[[0,1,2],[3,4,5]])); out['dih']=h(md.compute_dihedrals(t,[[0,1,2,3]]))
out['rmsd']=h(md.rmsd(t,t,0)); out['rmsd_ser']=h(md.rmsd(t,t,0,parallel=False))
tt=md.load('/repo/tests/data/frame0.h5')[:9]; tt.superpose(tt,0); out['superpose']=h(tt.xyz)
out['sasa']=h(md.shrake_rupley(t)); out['sasa1']=h(np.vstack([md.shrake_rupley(t[i]) for i in range(len(t))]))
out['dssp']=h(np.array(md.compute_dssp(p),dtype='U2')); out['ks']=h(np.array([m.toarray() for m in md.kabsch_sander(p)]))
out['bh']=h(md.baker_hubbard(p)); out['nb']=h(np.concatenate(md.compute_neighbors(t,0.4,[0,1])))
out['rg']=h(md.compute_rg(t)); out['drid']=h(md.compute_drid(t)); out['contacts']=h(md.compute_contacts(p)[0])
nl=md.compute_neighborlist(p,0.5,frame=0); out['nl']=h(np.concatenate([np.array(x) for x in nl]))
print(' '.join(f'{k}={v}' for k,v in out.items()))
