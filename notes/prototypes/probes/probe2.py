import mdtraj as md, numpy as np, os, warnings, shutil, inspect
warnings.simplefilter('ignore')
def mk(n):
    top = md.Topology(); ch = top.add_chain()
    for i in range(n):
        r = top.add_residue('ALA', ch); top.add_atom('CA', md.element.carbon, r)
    return top
top=mk(11)
def rm(fn):
    if os.path.isdir(fn): shutil.rmtree(fn)
    elif os.path.exists(fn): os.unlink(fn)
exts = ['h5','xtc','trr','dcd','nc','mdcrd','xyz','lammpstrj','dtr','gro','pdb']
for e in exts:
    fn=f'/tmp/probe/w.{e}'; rm(fn)
    f = md.open(fn,'w')
    sig = inspect.signature(f.write) if not e in ('xtc','trr','dcd','dtr') else None
    print(e, type(f).__name__, sig if sig else (f.write.__doc__ or '').split('\n')[0])
    f.close()
