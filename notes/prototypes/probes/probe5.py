import signal
class TO(Exception): pass
def _h(s,f): raise TO()
signal.signal(signal.SIGALRM,_h)
import mdtraj as md, numpy as np, os, warnings, shutil, itertools
warnings.simplefilter('ignore')
def mk(n):
    top = md.Topology(); ch = top.add_chain()
    for i in range(n):
        r = top.add_residue('ALA', ch); top.add_atom('CA', md.element.carbon, r)
    return top
NA=11; top=mk(NA)
def rm(fn):
    if os.path.isdir(fn): shutil.rmtree(fn)
    elif os.path.exists(fn): os.unlink(fn)
N=10
x=np.zeros((N,NA,3),dtype=np.float32)
for f in range(N):
    x[f,:,0]=(f+1)*0.1; x[f,:,1]=np.arange(NA)*0.05
t=md.Trajectory(x,top,time=np.arange(N)*1.0,unitcell_lengths=np.ones((N,3))*5,unitcell_angles=np.ones((N,3))*90)
exts=['h5','xtc','trr','dcd','nc','mdcrd','xyz','lammpstrj','dtr','gro','pdb']
def ids(tr): return [int(round(float(v)*10))-1 for v in tr.xyz[:,0,0]]
for e in exts:
    fn=f'/tmp/probe/i.{e}'; rm(fn); t.save(fn)
    kw={} if e in('h5','pdb','gro') else {'top':top}
    bad=[]
    for chunk,stride,skip in itertools.product([0,1,2,3,4,7,12],[1,2,3],[0,1,3,10]):
        exp=list(range(N))[skip::stride]
        try:
            signal.alarm(3); chunks=[ids(c) for c in md.iterload(fn,chunk=chunk,stride=stride,skip=skip,**kw)]; signal.alarm(0)
        except TO:
            bad.append(((chunk,stride,skip),'HANG')); continue
        except Exception as ex:
            signal.alarm(0); bad.append(((chunk,stride,skip),'EXC '+type(ex).__name__+str(ex)[:30])); continue
        cat=[i for c in chunks for i in c]
        sizes=[len(c) for c in chunks]
        ok = cat==exp and (chunk==0 or all(s==chunk for s in sizes[:-1]) and (not sizes or 0<sizes[-1]<=chunk))
        if not ok: bad.append(((chunk,stride,skip),chunks))
    # load stride / frame / atom_indices
    for stride in [1,2,3,11]:
        try:
            got=ids(md.load(fn,stride=stride,**kw))
            if got!=list(range(N))[::stride]: bad.append((('load',stride),got))
        except Exception as ex: bad.append((('load',stride),'EXC '+str(ex)[:40]))
    print(e,len(bad)); 
    for b in [b for b in bad if b[0][0]!=0][:14]: print('    ',b)
