import numpy as np, mdtraj as md, warnings
warnings.simplefilter('ignore')
rs=np.random.RandomState(3)
def mk(n):
    top = md.Topology(); ch = top.add_chain()
    for i in range(n):
        r = top.add_residue('ALA', ch); top.add_atom('CA', md.element.carbon, r)
    return top
def poly(X,Y):
    # X,Y centred integer arrays (N,3); returns coefficients of quartic P(l)=l^4+c2 l^2+c1 l+c0 for key matrix K
    M = X.T @ Y   # M_ij = sum x_i y_j
    Sxx,Sxy,Sxz,Syx,Syy,Syz,Szx,Szy,Szz = M.flatten()
    K = np.array([[Sxx+Syy+Szz, Syz-Szy, Szx-Sxz, Sxy-Syx],
                  [Syz-Szy, Sxx-Syy-Szz, Sxy+Syx, Szx+Sxz],
                  [Szx-Sxz, Sxy+Syx, -Sxx+Syy-Szz, Syz+Szy],
                  [Sxy-Syx, Szx+Sxz, Syz+Szy, -Sxx-Syy+Szz]],dtype=object)
    c2 = -2*int((M*M).sum()); 
    detM = int(round(np.linalg.det(M.astype(float))))
    c1 = -8*detM
    # exact det K with integer arithmetic (fractions-free via sympy-less Laplace)
    def det(m):
        n=len(m)
        if n==1: return m[0][0]
        return sum(((-1)**j)*m[0][j]*det([row[:j]+row[j+1:] for row in m[1:]]) for j in range(n))
    c0 = det([[int(v) for v in row] for row in K])
    return c2,c1,c0,K
bad=0; worst=0
for trial in range(300):
    N=rs.randint(3,7)
    while True:
        X=rs.randint(-2,3,size=(N,3)); X[-1]=-X[:-1].sum(0)
        Y=rs.randint(-2,3,size=(N,3)); Y[-1]=-Y[:-1].sum(0)
        if np.abs(X).max()<=4 and np.abs(Y).max()<=4 and np.linalg.matrix_rank(X)>=2 and np.linalg.matrix_rank(Y)>=2: break
    if trial%5==0: Y=-X.copy()   # mirror image
    c2,c1,c0,K=poly(X,Y)
    g=0.125
    top=mk(N)
    # random rigid motion of Y and translation of X (float)
    t=md.Trajectory(np.array([X*g+rs.randn(3)*3],dtype=np.float32),top)
    Q,_=np.linalg.qr(rs.randn(3,3)); 
    if np.linalg.det(Q)<0: Q[:,0]*=-1
    ref=md.Trajectory(np.array([(Y*g)@Q.T+rs.randn(3)*5],dtype=np.float32),top)
    r=float(md.rmsd(t,ref)[0])
    Ga=(X*X).sum(); Gb=(Y*Y).sum()
    lam=(Ga+Gb-N*(r/g)**2)/2
    P=lam**4+c2*lam**2+c1*lam+c0; P1=4*lam**3+2*c2*lam+c1; P2=12*lam**2+2*c2; 
    ev=np.linalg.eigvalsh(np.array(K,dtype=float)); 
    # Newton-scale residual: |P/P1| is the distance to the root
    resid = abs(P/P1) if abs(P1)>1e-9 else abs(P)
    worst=max(worst, abs(lam-ev.max()))
    if abs(lam-ev.max())>2e-3*(1+abs(lam)): bad+=1; print('BAD',trial,lam,ev.max(),r)
print('bad',bad,'worst |lam-evmax|',worst)
