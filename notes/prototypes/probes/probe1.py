import mdtraj as md, numpy as np, os, warnings, traceback
warnings.simplefilter('ignore')
top = md.Topology()
ch = top.add_chain()
for i in range(11):
    r = top.add_residue('ALA', ch)
    top.add_atom('CA', md.element.carbon, r)
N=7
xyz = np.zeros((N,11,3),dtype=np.float32)
for f in range(N):
    xyz[f,:,0]=f+1
    xyz[f,:,1]=np.arange(11)*0.1
t = md.Trajectory(xyz, top, time=np.arange(N)*2.0+1, unitcell_lengths=np.ones((N,3))*20, unitcell_angles=np.ones((N,3))*90)
exts = ['h5','xtc','trr','dcd','nc','mdcrd','xyz','lammpstrj','dtr','gro','pdb']
def ids(r):
    # r can be tuple/namedtuple/array
    a = r[0] if isinstance(r,tuple) else r
    if hasattr(r,'coordinates'): a=r.coordinates
    a=np.asarray(a)
    if a.size==0: return []
    return [round(float(v),2) for v in a[:,0,0]]
for e in exts:
    fn = f'/tmp/probe/t.{e}'
    if os.path.exists(fn):
        import shutil
        shutil.rmtree(fn) if os.path.isdir(fn) else os.unlink(fn)
    try:
        t.save(fn)
    except Exception as ex:
        print(e,'SAVE FAIL',ex); continue
    kw = {'n_atoms':11} if e=='mdcrd' else {}
    try:
        f = md.open(fn, **kw)
    except Exception as ex:
        print(e,'OPEN FAIL',repr(ex)); continue
    out=[]
    def do(name, fn_):
        try:
            r = fn_()
            out.append((name, r))
        except Exception as ex:
            out.append((name, 'EXC '+type(ex).__name__+': '+str(ex)[:60]))
    do('len', lambda: len(f))
    do('tell', lambda: f.tell())
    do('read2', lambda: ids(f.read(2)))
    do('tell', lambda: f.tell())
    do('seek5', lambda: f.seek(5))
    do('read', lambda: ids(f.read()))
    do('tell', lambda: f.tell())
    do('read1@eof', lambda: ids(f.read(1)))
    do('tell', lambda: f.tell())
    do('seek-3rel', lambda: f.seek(-3,1))
    do('tell', lambda: f.tell())
    do('read5', lambda: ids(f.read(5)))
    do('tell', lambda: f.tell())
    do('seek7', lambda: f.seek(7))
    do('tell', lambda: f.tell())
    do('seek0', lambda: f.seek(0))
    do('read()', lambda: ids(f.read()))
    do('tell', lambda: f.tell())
    do('len', lambda: len(f))
    print(e, out)
    try: f.close()
    except Exception as ex: print('close fail', ex)
