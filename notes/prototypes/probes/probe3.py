import mdtraj as md, numpy as np, os, warnings, shutil
warnings.simplefilter('ignore')
def mk(n):
    top = md.Topology(); ch = top.add_chain()
    for i in range(n):
        r = top.add_residue('ALA', ch); top.add_atom('CA', md.element.carbon, r)
    return top
NA=11
top=mk(NA)
def rm(fn):
    if os.path.isdir(fn): shutil.rmtree(fn)
    elif os.path.exists(fn): os.unlink(fn)
def frames(lo,hi,na=NA):
    x=np.zeros((hi-lo,na,3),dtype=np.float32)
    for k,f in enumerate(range(lo,hi)):
        x[k,:,0]=f+1; x[k,:,1]=np.arange(na)*0.5
    return x
def cell(n): return np.ones((n,3),dtype=np.float32)*30, np.ones((n,3),dtype=np.float32)*90
def vec(n): return np.tile(np.eye(3,dtype=np.float32)*30,(n,1,1))
def write(f,e,lo,hi,na=NA,with_cell=True,with_time=True):
    x=frames(lo,hi,na); n=hi-lo; L,A=cell(n); t=np.arange(lo,hi,dtype=np.float32)
    tp = top if na==NA else mk(na)
    if e in('h5','nc'):
        kw={}
        if with_cell: kw.update(cell_lengths=L,cell_angles=A)
        if with_time: kw.update(time=t)
        f.write(x,**kw)
    elif e in('xtc','trr'):
        kw={}
        if with_cell: kw.update(box=vec(n))
        if with_time: kw.update(time=t)
        f.write(x,**kw)
    elif e=='dcd':
        f.write(x,**(dict(cell_lengths=L,cell_angles=A) if with_cell else {}))
    elif e=='dtr':
        f.write(x,cell_lengths=L,cell_angles=A,times=t)
    elif e=='mdcrd':
        f.write(x,**(dict(cell_lengths=L) if with_cell else {}))
    elif e=='xyz': f.write(x)
    elif e=='lammpstrj': f.write(x,L,A)
    elif e=='gro':
        f.write(x/10,tp,time=t if with_time else None,unitcell_vectors=vec(n)/10 if with_cell else None)
    elif e=='pdb':
        for i in range(n):
            f.write(x[i],tp,modelIndex=lo+i,**(dict(unitcell_lengths=L[i],unitcell_angles=A[i]) if with_cell else {}))
def load(fn,e):
    try:
        t = md.load(fn, top=top) if e not in('h5','pdb','gro') else md.load(fn)
        sc = 1 if e in ('h5','xtc','trr','gro') else 10
        return [round(float(v)*sc,1) for v in t.xyz[:,0,0]], (t.unitcell_lengths is not None)
    except Exception as ex:
        return 'LOADFAIL '+type(ex).__name__+':'+str(ex)[:50]
exts = ['h5','xtc','trr','dcd','nc','mdcrd','xyz','lammpstrj','dtr','gro','pdb']
for e in exts:
    fn=f'/tmp/probe/w.{e}'
    res={}
    # partition 2+1+2
    rm(fn); f=md.open(fn,'w'); write(f,e,0,2); write(f,e,2,3); write(f,e,3,5); f.close(); res['part']=load(fn,e)
    # ragged atoms
    rm(fn); f=md.open(fn,'w'); write(f,e,0,2)
    try: write(f,e,2,3,na=7); res['rag_atoms']='ACCEPTED'
    except Exception as ex: res['rag_atoms']='refused:'+type(ex).__name__
    f.close(); res['rag_atoms_load']=load(fn,e)
    # ragged cell drop
    if e in ('h5','nc','xtc','trr','dcd','mdcrd','gro','pdb'):
        rm(fn); f=md.open(fn,'w'); write(f,e,0,2,with_cell=True)
        try: write(f,e,2,3,with_cell=False); res['drop_cell']='ACCEPTED'
        except Exception as ex: res['drop_cell']='refused:'+type(ex).__name__
        f.close(); res['drop_cell_load']=load(fn,e)
        rm(fn); f=md.open(fn,'w'); write(f,e,0,2,with_cell=False)
        try: write(f,e,2,3,with_cell=True); res['add_cell']='ACCEPTED'
        except Exception as ex: res['add_cell']='refused:'+type(ex).__name__
        f.close(); res['add_cell_load']=load(fn,e)
    if e in ('h5','nc'):
        rm(fn); f=md.open(fn,'w'); write(f,e,0,2,with_time=True)
        try: write(f,e,2,3,with_time=False); res['drop_time']='ACCEPTED'
        except Exception as ex: res['drop_time']='refused:'+type(ex).__name__
        f.close(); res['drop_time_load']=load(fn,e)
        rm(fn); f=md.open(fn,'w'); write(f,e,0,2,with_time=False)
        try: write(f,e,2,3,with_time=True); res['add_time']='ACCEPTED'
        except Exception as ex: res['add_time']='refused:'+type(ex).__name__
        f.close(); res['add_time_load']=load(fn,e)
    print(e); 
    for k,v in res.items(): print('   ',k,v)
