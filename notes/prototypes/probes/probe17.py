import mdtraj as md, numpy as np, pickle, copy, warnings, os
warnings.simplefilter('ignore')
from mdtraj.core.topology import Single, Double, Amide
E=md.element
top=md.Topology()
cA=top.add_chain('X'); cB=top.add_chain('Y')
r1=top.add_residue('ALA',cA,resSeq=7,segment_id='S1'); r2=top.add_residue('GLY',cA,resSeq=7,segment_id='S1'); r3=top.add_residue('HOH',cB,resSeq=1,segment_id='S2')
a=[top.add_atom('N',E.nitrogen,r1,serial=10),top.add_atom('CA',E.carbon,r1,serial=12),top.add_atom('C',E.carbon,r1,serial=13),
   top.add_atom('N',E.nitrogen,r2,serial=20),top.add_atom('CA',E.carbon,r2,serial=25),top.add_atom('O',E.oxygen,r3,serial=31),top.add_atom('M',E.virtual,r3,serial=32)]
top.add_bond(a[0],a[1],type=Single,order=1); top.add_bond(a[1],a[2],type=Double,order=2); top.add_bond(a[2],a[3],type=Amide); top.add_bond(a[5],a[6])
def val(t):
    return dict(chains=[c.chain_id for c in t.chains],
                res=[(r.name,r.resSeq,r.segment_id,r.chain.index) for r in t.residues],
                atoms=[(x.name,x.element.symbol,x.serial,x.residue.index) for x in t.atoms],
                bonds=sorted((b[0].index,b[1].index,str(b.type),b.order) for b in t.bonds))
base=val(top)
def diff(v):
    return {k:(v[k] if v[k]!=base[k] else 'same') for k in base}
xyz=np.random.RandomState(0).rand(1,7,3).astype(np.float32)
t=md.Trajectory(xyz,top)
print('copy',diff(val(top.copy())))
print('deepcopy',diff(val(copy.deepcopy(top))))
print('pickle',diff(val(pickle.loads(pickle.dumps(top)))))
df,b=top.to_dataframe(); print('dataframe',diff(val(md.Topology.from_dataframe(df,b))))
t.save('/tmp/probe/top.h5'); print('h5',diff(val(md.load('/tmp/probe/top.h5').topology)))
t.save('/tmp/probe/top.pdb'); print('pdb',diff(val(md.load('/tmp/probe/top.pdb').topology)))
print('pdb no std names',diff(val(md.load('/tmp/probe/top.pdb',standard_names=False).topology)))
s=top.subset([1,2,3,5]); print('subset',val(s))
j=top.join(top); print('join chains',[c.chain_id for c in j.chains], 'n_bonds',j.n_bonds, 'eq self-join halves', )
print('traj slice topo',diff(val(t[0].topology)), 'stack',[c.chain_id for c in t.stack(t).topology.chains])
