import numpy as np, mdtraj as md, warnings
warnings.simplefilter('ignore')
from mdtraj.geometry.sasa import _ATOMIC_RADII
def spiral(n):
    i=np.arange(n,dtype=np.float64)
    inc=np.pi*(3-np.sqrt(5)); off=2.0/n
    y=i*off-1+off/2; r=np.sqrt(1-y*y); phi=i*inc
    return np.stack([np.cos(phi)*r,y,np.sin(phi)*r],1)
for fn in ['/repo/tests/data/frame0.h5','/repo/tests/data/2EQQ.pdb','/repo/tests/data/1bpi.pdb']:
    t=md.load(fn)[0]; n=960
    out=md.shrake_rupley(t,n_sphere_points=n)[0]
    R=np.array([_ATOMIC_RADII[a.element.symbol] for a in t.top.atoms])+0.14
    cnt_impl=np.round(out/(4*np.pi/n*R*R)).astype(int)
    X=t.xyz[0].astype(np.float64); pts=spiral(n)
    cnt=np.zeros(t.n_atoms,int); near=np.zeros(t.n_atoms,int)
    for i in range(t.n_atoms):
        P=X[i]+R[i]*pts
        d=np.linalg.norm(X-X[i],axis=1); nb=np.where((d<R+R[i])&(np.arange(t.n_atoms)!=i))[0]
        if len(nb)==0: cnt[i]=n; continue
        D=np.linalg.norm(P[:,None,:]-X[nb][None],axis=2)-R[nb][None]
        cnt[i]=(D.min(1)>=0).sum(); near[i]=(np.abs(D).min(1)<1e-5).sum()
    diff=np.abs(cnt-cnt_impl)
    print(fn.split('/')[-1],'atoms',t.n_atoms,'exact match',int((diff==0).sum()),'mismatch beyond near',int((diff>near).sum()),'max diff',diff.max(),'near total',near.sum())
