import mdtraj as md, warnings
warnings.simplefilter('ignore')
t = md.load('/repo/tests/data/native.pdb').topology
for e in ["resid == 3 and name CA", "resid eq 3 and name CA", "resid == 3 && name CA", "mass < 5 && name H", "(mass < 5) && name H",
          "not resid 3 and name CA", "! resid 3 and name CA", "!resid 3", "not(resid 3)", "name CA or name CB and resid 1", "resid 1 to 2 and name N",
          "name =~ 'C.*' and resid 0", "resid 0 and name =~ 'C.*'", "resname ALA GLY", "resname ALA and not name CA CB", "index < 3 or index > 20",
          "3 > index", "index 1 2 3", "name", "CA", "name CA and", "(name CA", "name == CA == CB", "resid 1 to", "mass 1.0 to 13 and protein", "water || protein && name CA",
          "name 'CA'", 'name "CA"', "name ca", "element C", "type == 'C'", "symbol ne C and resid le 1", "resid le 1 and symbol ne C", "not water", "nothing", "everything and resi 0", "backbone && resid 0", "is_sidechain and resid 0", "resSeq 1", "residue 1", "chainid 0 and resid 0", "segname '' and resid 0", "code A and resid < 4", "n_bonds 4 and resid 0"]:
    try:
        r = t.select(e); print(repr(e), '->', list(r)[:12], len(r))
    except Exception as ex:
        print(repr(e), 'EXC', type(ex).__name__, str(ex).split('\n')[0][:70])
