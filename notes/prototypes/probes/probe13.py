import mdtraj as md, numpy as np, warnings
warnings.simplefilter('ignore')
rs=np.random.RandomState(4)
# system: 1 "protein" chain of 12 atoms (linear bonds) + 15 waters (3 atoms each), triclinic cell
top=md.Topology(); ch=top.add_chain(); prev=None; atoms=[]
for i in range(12):
    a=top.add_atom('C',md.element.carbon,top.add_residue('ALA',ch)); atoms.append(a)
    if prev is not None: top.add_bond(prev,a)
    prev=a
ch2=top.add_chain()
for w in range(15):
    r=top.add_residue('HOH',ch2); o=top.add_atom('O',md.element.oxygen,r); h1=top.add_atom('H1',md.element.hydrogen,r); h2=top.add_atom('H2',md.element.hydrogen,r)
    top.add_bond(o,h1); top.add_bond(o,h2)
box=np.array([[3.0,0,0],[0.8,2.8,0],[-0.6,0.7,2.6]])
n=top.n_atoms; F=4
xyz=np.zeros((F,n,3))
for f in range(F):
    p=np.array([1.5,1.4,1.3])+rs.randn(3)*0.2
    for i in range(12): xyz[f,i]=p; p=p+rs.randn(3)*0.08
    for w in range(15):
        o=rs.rand(3)@box; xyz[f,12+3*w]=o; xyz[f,13+3*w]=o+rs.randn(3)*0.05; xyz[f,14+3*w]=o+rs.randn(3)*0.05
# scramble: every atom shifted by random lattice vectors
shift=rs.randint(-2,3,size=(F,n,3))@box
t=md.Trajectory((xyz+shift).astype(np.float32),top); t.unitcell_vectors=np.tile(box,(F,1,1)).astype(np.float32)
ref=t.xyz.copy()
def coef(d): return np.linalg.solve(t.unitcell_vectors[0].astype(float).T, d.T).T
w=t.make_molecules_whole()
c=coef((w.xyz[0]-t.xyz[0]).astype(float)); print('make_whole max non-integrality',np.abs(c-np.round(c)).max(), 'input untouched',np.array_equal(t.xyz,ref))
bonds=np.array([[b[0].index,b[1].index] for b in top.bonds])
print('  bonds whole:',np.allclose(md.compute_distances(w,bonds,periodic=False),md.compute_distances(t,bonds,periodic=True),atol=1e-5))
im=t.image_molecules(anchor_molecules=[set(atoms)])
d=(im.xyz[0]-t.xyz[0]).astype(float)
# common translation: estimate as fractional part consensus
c=coef(d); frac=c-np.round(c-c[0])   # relative to atom 0
print('image_molecules: spread of fractional offset (should be ~0):',np.abs(frac-frac[0]).max())
pairs=np.array([[0,5],[3,20],[13,14],[15,40]])
print('  MIC distances kept:',np.allclose(md.compute_distances(im,pairs),md.compute_distances(t,pairs),atol=2e-5), 'cell untouched',np.array_equal(im.unitcell_vectors,t.unitcell_vectors),'time',np.array_equal(im.time,t.time))
# molecules moved as units
mols=top.find_molecules()
ok=True
for m in mols:
    idx=[a.index for a in m]; cc=coef((im.xyz[0,idx]-w.xyz[0,idx]).astype(float)); 
    if np.abs(cc-cc[0]).max()>1e-3: ok=False
print('  each molecule moved rigidly relative to made-whole input:',ok)
