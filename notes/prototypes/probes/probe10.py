import numpy as np, mdtraj as md, warnings
warnings.simplefilter('ignore')
rs=np.random.RandomState(5)
def mk(n):
    top = md.Topology(); ch = top.add_chain()
    for i in range(n):
        r = top.add_residue('ALA', ch); top.add_atom('CA', md.element.carbon, r)
    return top
top=mk(4); g=0.125
def fp_dih(p):
    b1=p[1]-p[0]; b2=p[2]-p[1]; b3=p[3]-p[2]
    c12=np.cross(b1,b2); c23=np.cross(b2,b3)
    sgn_sin=int(np.sign(int(np.dot(b1,c23))))
    num=int(np.dot(c12,c23)); den=int(np.dot(c12,c12))*int(np.dot(c23,c23))
    return sgn_sin, int(np.sign(num)), (num*num, den)
def fp_ang(p):
    u=p[0]-p[1]; v=p[2]-p[1]; num=int(np.dot(u,v)); den=int(np.dot(u,u))*int(np.dot(v,v))
    return int(np.sign(num)), (num*num, den)
bad=0; worst=0; n=0
for trial in range(3000):
    P=rs.randint(-4,5,size=(4,3))
    if np.linalg.norm(np.cross(P[1]-P[0],P[2]-P[1]))==0 or np.linalg.norm(np.cross(P[2]-P[1],P[3]-P[2]))==0: continue
    n+=1
    t=md.Trajectory((P*g)[None].astype(np.float32),top)
    for opt in (True,False):
        th=float(md.compute_dihedrals(t,[[0,1,2,3]],periodic=False,opt=opt)[0,0])
        ss,sc,(c2n,c2d)=fp_dih(P)
        e=abs(np.cos(th)**2-c2n/c2d); worst=max(worst,e)
        ok = e<1e-5 and (ss==0 or np.sign(np.sin(th))==ss or abs(np.sin(th))<1e-5) and (sc==0 or np.sign(np.cos(th))==sc or abs(np.cos(th))<1e-5)
        if not ok: bad+=1; print('DIH BAD',P.tolist(),th,ss,sc,c2n/c2d)
        # reversal invariance
        th2=float(md.compute_dihedrals(t,[[3,2,1,0]],periodic=False,opt=opt)[0,0])
        if abs(th-th2)>1e-5 and abs(abs(th)-np.pi)>1e-4: bad+=1; print('REV BAD',th,th2)
        a=float(md.compute_angles(t,[[0,1,2]],periodic=False,opt=opt)[0,0]); sc,(n2,d2)=fp_ang(P)
        if abs(np.cos(a)**2-n2/d2)>1e-5 or (sc!=0 and np.sign(np.cos(a))!=sc and abs(np.cos(a))>1e-5): bad+=1; print('ANG BAD',P[:3].tolist(),a)
print('cases',n,'bad',bad,'worst cos2 err',worst)
