import mdtraj as md, numpy as np, os, warnings, shutil, glob
warnings.simplefilter('ignore')
def mk(n):
    top = md.Topology(); ch = top.add_chain()
    for i in range(n):
        r = top.add_residue('ALA', ch); top.add_atom('CA', md.element.carbon, r)
    return top
def rm(fn):
    for p in glob.glob(fn+'*'):
        shutil.rmtree(p) if os.path.isdir(p) else os.unlink(p)
rs=np.random.RandomState(2)
for na in (4,12):
    top=mk(na); N=3
    xyz=(rs.randint(-50000,50000,size=(N,na,3))*1e-4).astype(np.float32)   # 1e-4 nm grid, |x|<5nm
    time=np.array([0.5,1.25,7.0])
    cells={'none':None,'ortho':(np.array([[6.,7.,8.]]*N),np.array([[90.,90.,90.]]*N)),
           'tri':(np.array([[6.,7.,8.],[6.1,7.1,8.1],[6.2,7.2,8.2]]),np.array([[70.,80.,100.]]*N))}
    for ck,cv in cells.items():
        t=md.Trajectory(xyz,top,time=time.copy())
        if cv is not None: t.unitcell_lengths,t.unitcell_angles=cv
        row=[]
        for e in ['h5','xtc','trr','dcd','nc','mdcrd','xyz','lammpstrj','gro','pdb','dtr','rst7','ncrst','xyz.gz','pdb.gz']:
            fn=f'/tmp/probe/f.{e}'; rm(fn)
            try: t.save(fn)
            except Exception as ex: row.append(f'{e}:SAVE-{type(ex).__name__}'); continue
            try:
                if e in('rst7','ncrst'):
                    parts=[md.load(f'{fn}.{i+1}',top=top) for i in range(N)]; l=md.join(parts)
                else:
                    l=md.load(fn,top=top) if e not in('h5','pdb','gro','pdb.gz') else md.load(fn)
            except Exception as ex: row.append(f'{e}:LOAD-{type(ex).__name__}:{str(ex)[:30]}'); continue
            dx=np.abs(l.xyz-t.xyz).max()
            tm='T' if np.allclose(l.time,time,atol=1e-4) else 't('+','.join('%g'%v for v in l.time)+')'
            if cv is None: c='noC' if l.unitcell_lengths is None else 'C?%s'%l.unitcell_lengths[0]
            else:
                if l.unitcell_lengths is None: c='LOSTC'
                else:
                    ok=np.allclose(l.unitcell_lengths,cv[0],atol=2e-3) and np.allclose(l.unitcell_angles,cv[1],atol=2e-2)
                    c='C' if ok else 'c%s%s'%(l.unitcell_lengths[-1].round(3),l.unitcell_angles[-1].round(2))
            row.append(f'{e}:{l.n_frames}f dx={dx:.1e} {tm} {c}')
        print(f'na={na} cell={ck}'); print('   '+'\n   '.join(row))
