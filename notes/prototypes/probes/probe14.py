import mdtraj as md, numpy as np, os, struct, gzip, warnings, glob, shutil
warnings.simplefilter('ignore')
def mk(n):
    top = md.Topology(); ch = top.add_chain()
    for i in range(n): top.add_atom('CA', md.element.carbon, top.add_residue('ALA', ch))
    return top
rs=np.random.RandomState(9)
NA=4; N=2; top=mk(NA)
K=rs.randint(-99999,99999,size=(N,NA,3))          # integers in 1e-4 nm  (|x| < 10 nm)
K[0,0]=[-12345, 5, 99995]                          # includes a tie digit for 3-decimal nm formats
xyz=(K*1e-4).astype(np.float32)
t=md.Trajectory(xyz,top,time=np.array([0.5,2.0]),unitcell_lengths=np.array([[20.,21.,22.]]*N),unitcell_angles=np.full((N,3),90.))
def rm(fn):
    for p in glob.glob(fn+'*'): shutil.rmtree(p) if os.path.isdir(p) else os.unlink(p)
exp_A=K   # expected integers in 1e-3 Angstrom == 1e-4 nm grid
res={}
# mdcrd: 10 fields of width 8 per line
fn='/tmp/probe/b.mdcrd'; rm(fn); t.save(fn)
L=open(fn).read().split('\n')[1:]; vals=[]
for ln in L:
    vals+= [ln[j:j+8] for j in range(0,len(ln),8) if ln[j:j+8].strip()]
per=NA*3+3
got=np.array([[round(float(v)*1000) for v in vals[f*per:f*per+NA*3]] for f in range(N)]).reshape(N,NA,3)
res['mdcrd']=(np.array_equal(got,exp_A), [vals[f*per+NA*3:f*per+per] for f in range(N)])
# xyz
fn='/tmp/probe/b.xyz'; rm(fn); t.save(fn); L=open(fn).read().split('\n'); got=[]
for f in range(N):
    blk=L[f*(NA+2)+2:f*(NA+2)+2+NA]; got.append([[round(float(x)*1000) for x in b.split()[1:4]] for b in blk])
res['xyz']=(np.array_equal(np.array(got),exp_A), L[0], )
# pdb columns 31-54
fn='/tmp/probe/b.pdb'; rm(fn); t.save(fn); got=[]
for ln in open(fn):
    if ln.startswith('ATOM') or ln.startswith('HETATM'): got.append([round(float(ln[30:38])*1000),round(float(ln[38:46])*1000),round(float(ln[46:54])*1000)])
res['pdb']=(np.array_equal(np.array(got).reshape(N,NA,3),exp_A), [l.strip() for l in open(fn) if l.startswith('CRYST1')][:1])
# gro: nm, precision 3 -> expected round(K/10) with ties either way
fn='/tmp/probe/b.gro'; rm(fn); t.save(fn); L=open(fn).read().split('\n'); got=[]
for f in range(N):
    blk=L[f*(NA+3)+2:f*(NA+3)+2+NA]; got.append([[round(float(b[20+8*k:28+8*k])*1000) for k in range(3)] for b in blk])
got=np.array(got); lo=np.floor(K/10.0); hi=np.ceil(K/10.0); near=np.round(K/10.0); tie=(np.abs(K)%10==5)
res['gro']=(bool(np.all(np.where(tie,(got==lo)|(got==hi),got==near))), L[0], L[NA+2])
# dcd via struct: independent reader of the CHARMM layout
fn='/tmp/probe/b.dcd'; rm(fn); t.save(fn); b=open(fn,'rb').read()
def rec(off):
    n=struct.unpack('<i',b[off:off+4])[0]; data=b[off+4:off+4+n]; assert struct.unpack('<i',b[off+4+n:off+8+n])[0]==n; return data,off+8+n
hdr,off=rec(0); nset=struct.unpack('<i',hdr[4:8])[0]; ttl,off=rec(off); nat,off=rec(off); natoms=struct.unpack('<i',nat)[0]
frames=[]
for f in range(nset):
    cell,off=rec(off); cellv=struct.unpack('<6d',cell)
    X,off=rec(off); Y,off=rec(off); Z,off=rec(off)
    frames.append(np.stack([np.frombuffer(X,'<f4'),np.frombuffer(Y,'<f4'),np.frombuffer(Z,'<f4')],1))
got=np.round(np.array(frames)*1000).astype(int)
res['dcd']=(nset,natoms,np.array_equal(got,exp_A),cellv)
# rst7
fn='/tmp/probe/b.rst7'; rm(fn); t.save(fn); L=open(fn+'.1').read().split('\n'); 
res['rst7']=(L[1], L[2][:36], L[-2] if L[-1]=='' else L[-1])
for k,v in res.items(): print(k,v)
