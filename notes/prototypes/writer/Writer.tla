---------------------------- MODULE Writer ----------------------------
(* Streaming trajectory writer (C19): schema fixed by the first write, ragged
   writes refused, flush/close, crash with loss of an unflushed suffix. *)
EXTENDS Integers, Sequences, FiniteSets, TLC, Json
CONSTANTS MaxFrames, HasFlush, Dev
Schemas == [natoms : {3, 4}, cell : BOOLEAN, time : BOOLEAN]
VARIABLES schema, acc, dur, status, nextId, hist, loaded, rag
vars == <<schema, acc, dur, status, nextId, hist, loaded, rag>>
NoSchema == [natoms |-> 0, cell |-> FALSE, time |-> FALSE]
IsPrefix(s, t) == Len(s) <= Len(t) /\ \A i \in 1..Len(s) : s[i] = t[i]
Log(r) == hist' = Append(hist, r)
Init == schema = NoSchema /\ acc = <<>> /\ dur = <<>> /\ status = "open" /\ nextId = 0 /\ hist = <<>> /\ loaded = <<>> /\ rag = 0
Write(k, s) ==
  /\ status = "open" /\ nextId + k <= MaxFrames
  /\ LET ids == [i \in 1..k |-> nextId + i - 1] IN
     IF schema = NoSchema \/ s = schema
     THEN /\ acc' = acc \o ids /\ schema' = s /\ Log([op |-> "write", k |-> k, s |-> s, ok |-> TRUE])
     ELSE /\ rag = 0 /\ UNCHANGED <<acc, schema>> /\ Log([op |-> "write", k |-> k, s |-> s, ok |-> FALSE])   \* refused, nothing retained
  /\ rag' = IF schema = NoSchema \/ s = schema THEN rag ELSE 1
  /\ nextId' = nextId + k /\ UNCHANGED <<dur, status, loaded>>
Flush == status = "open" /\ HasFlush /\ dur' = acc /\ Log([op |-> "flush"]) /\ UNCHANGED <<schema, acc, status, nextId, loaded, rag>>
Close == status = "open" /\ dur' = acc /\ status' = "closed" /\ loaded' = acc /\ Log([op |-> "close"]) /\ UNCHANGED <<schema, acc, nextId, rag>>
Crash == /\ status = "open" /\ status' = "crashed" /\ Log([op |-> "crash"])
         /\ \E m \in Len(dur)..Len(acc) : loaded' = SubSeq(acc, 1, m)         \* some prefix extending what was flushed
         /\ UNCHANGED <<schema, acc, dur, nextId, rag>>
Next == (\E k \in 1..3, s \in Schemas : Write(k, s)) \/ Flush \/ Close \/ Crash
Spec == Init /\ [][Next]_vars
OneShotEquivalence == status = "closed" => loaded = acc
Durable == status = "crashed" => IsPrefix(dur, loaded) /\ IsPrefix(loaded, acc)
RefusalIsClean == [][(hist' # hist /\ hist'[Len(hist')].op = "write" /\ ~hist'[Len(hist')].ok) => (acc' = acc /\ dur' = dur)]_vars
View == <<schema, acc, dur, status, nextId, loaded, rag, IF hist = <<>> THEN <<>> ELSE hist[Len(hist)]>>
Emit == (status' # "open") => PrintT(<<"TR", ToJson([hist |-> hist', loadedOneOf |-> [lo |-> Len(dur), hi |-> Len(acc)], acc |-> acc])>>)
=======================================================================
