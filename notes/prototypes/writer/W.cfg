SPECIFICATION Spec
CONSTANTS MaxFrames = 4
 HasFlush = TRUE
 Dev = {}
INVARIANT OneShotEquivalence
INVARIANT Durable
PROPERTY RefusalIsClean
ACTION_CONSTRAINT Emit
VIEW View
CHECK_DEADLOCK FALSE
